//! vnative <command> [args]      (seed for every random choice: env VERIF_SEED)
//!   kernels all|<engine> <n>    (symbol, log_m) pairs through Engine::mul: all 65536 symbols x n values of log_m (65536 = exhaustive)
//!   engines <n> [part]          part (FAIL lines say `engines-<part>`): all (default) | codec (encode / decode level) | primitives (mul, fft/ifft, eval_poly)
//!                               every engine (naive, ssse3, avx2, default) vs NoSimd: n random configurations on encode / decode, a fixed list of small
//!                               configurations (2^odd decoder work areas) with a missing original, Engine::mul on multi-block buffers, eval_poly, random
//!                               fft/ifft, and a deterministic fft/ifft sweep: sizes 2..128, pos 0/3, every small skew_delta + the table end, 1/2 blocks,
//!                               truncated sizes (fft: only the specified shards are compared; ifft: truncated input zeroed) (bounded)
//!   sizes <max>                 every even shard size 2..=max: lengths, slot independence with the documented placement, round trip
//!   oneshot <n>                 n random valid and invalid sessions: one-shot encode()/decode() vs the streaming API, errors included; half of them
//!                               through iterators that are not exact-size; fixed no-recovery sessions (surplus / duplicate / out-of-range originals)
//!   linearity <n>               n random and structured cases on every engine: additivity, zero, scalar multiples (independent field arithmetic),
//!                               all-zero second round on the same encoder object (FAIL linearity additivity|zero|scalar|second-round-zero)
//!   histories <n> [mode]        n random multi-round histories on ONE reused object vs fresh objects, every codec layer: resets, implicit resets,
//!                               moved work spaces, abandoned rounds, failing calls in between; results never depend on the past (bounded)
//!                               mode (FAIL lines say `histories-<mode>`): all (default) | failed: one round on a fresh object with failing calls
//!                               (a failed call changes nothing) | drop: same configuration, rounds separated only by the dropped result, accessors
//!                               | sizes: rounds that change only shard_bytes by an explicit reset
//!   alloc <n>                   n rounds / non-growing resets under a counting allocator: no shard-proportional allocation
//!   roundtrip both <s> all      every subset with >= k members, every (k, r) with k + r <= s, high, low and default codec
//!   kernels <engine>            exhaustive: every (symbol, log_m) pair through Engine::mul of the real engine, every lane
//!   tables [skew]               exhaustive: skew (closed form, all 65535 entries; `tables skew` = only this), log, exp/log, mul16, mul128,
//!                               log_walsh (all 65536 rows) against an independent recomputation
//!   closedform <rate> <kmax> <rmax>   encoder on basis vectors vs the scaled-Cauchy closed form (independent field arithmetic)
//!   defects [all|D1|D2|D3]      the three reproductions of DESIGN section 9
//! Output: lines `OK <what> <count>` or `FAIL <what> <detail>`; exit 0 / 1.
//! Trouble outside the oracle - a panic or an unexpected Err while a stand-in only sets up its scenario - prints `PANIC <message>` and exits 3;
//! for defects, roundtrip, histories and oneshot (valid use never fails / never panics is part of what they check) it is a `FAIL` line and exit 1.
use reed_solomon_simd::engine::*;
use reed_solomon_simd::rate::*;
use reed_solomon_simd::*;

// ---------------------------------------------------------------- independent field arithmetic (two published constants only)
const POLY: u32 = 0x1002D;
const CB: [u16; 16] = [0x0001, 0xACCA, 0x3C0E, 0x163E, 0xC582, 0xED2E, 0x914C, 0x4012, 0x6C98, 0x10D8, 0x6A72, 0xB900, 0xFDB8, 0xFB34, 0xFF38, 0x991E];

struct Field { exp: Vec<u16>, log: Vec<u32>, to_poly: Vec<u16>, from_poly: Vec<u16> }
impl Field {
    fn new() -> Self {
        // polynomial-basis exp/log by repeated multiplication by x
        let mut exp = vec![0u16; 65535]; let mut log = vec![0u32; 65536];
        let mut s: u32 = 1;
        for i in 0..65535u32 { exp[i as usize] = s as u16; log[s as usize] = i; s <<= 1; if s & 0x10000 != 0 { s ^= POLY; } }
        // Cantor-basis index -> polynomial representation and back
        let mut to_poly = vec![0u16; 65536]; let mut from_poly = vec![0u16; 65536];
        for x in 0..65536usize { let mut v = 0u16; for i in 0..16 { if (x >> i) & 1 == 1 { v ^= CB[i]; } } to_poly[x] = v; from_poly[v as usize] = x as u16; }
        Field { exp, log, to_poly, from_poly }
    }
    fn pmul(&self, a: u16, b: u16) -> u16 { if a == 0 || b == 0 { 0 } else { self.exp[((self.log[a as usize] + self.log[b as usize]) % 65535) as usize] } }
    fn pinv(&self, a: u16) -> u16 { self.exp[((65535 - self.log[a as usize]) % 65535) as usize] }
    /// product of two symbols given in Cantor-index representation
    fn mul(&self, x: u16, y: u16) -> u16 { self.from_poly[self.pmul(self.to_poly[x as usize], self.to_poly[y as usize]) as usize] }
    fn inv(&self, x: u16) -> u16 { self.from_poly[self.pinv(self.to_poly[x as usize]) as usize] }
    /// x * g^m with g = the polynomial `x` (0x0002)
    fn mul_log(&self, x: u16, m: u16) -> u16 {
        if x == 0 { return 0; }
        let g = self.exp[(m as u32 % 65535) as usize];
        self.from_poly[self.pmul(self.to_poly[x as usize], g) as usize]
    }
}

fn sym(b: &[u8; 64], l: usize) -> u16 { b[l] as u16 | ((b[l + 32] as u16) << 8) }
fn put(b: &mut [u8; 64], l: usize, v: u16) { b[l] = v as u8; b[l + 32] = (v >> 8) as u8; }

fn kernels<E: Engine>(name: &str, e: &E, f: &Field) -> bool {
    // every log_m; for each, all 65536 symbols spread over the 32 lanes of 2048 blocks (so every lane sees every symbol
    // once per rotation); 2 rotations cover lane-position dependence of the 128/256-bit halves
    let mut n: u64 = 0;
    for m in 0..=65535u16 {
        for rot in [0usize, 17] {
            let mut buf = vec![[0u8; 64]; 2048];
            for s in 0..65536usize { let k = (s + rot) % 65536; put(&mut buf[k / 32], k % 32, s as u16); }
            e.mul(&mut buf, m);
            for s in 0..65536usize { let k = (s + rot) % 65536; let got = sym(&buf[k / 32], k % 32); let want = f.mul_log(s as u16, m);
                if got != want { println!("FAIL kernels {} symbol={} log_m={} lane={} got={} want={}", name, s, m, k % 32, got, want); return false; } n += 1; }
        }
    }
    println!("OK kernels {} {}", name, n);
    true
}

/// closed form of the C02 statement: recovery[j] = sum_i G[j][i] * original[i]
/// high rate: m = np2(rc), G[j][i] = s_m(m+i) / (W_m * (j ^ (m+i)));  low rate: m = np2(oc), G[j][i] = s_m(m+j) / (W_m * ((m+j) ^ i))
/// s_m(x) = prod_{v<m} (x ^ v)  (vanishing polynomial of the points 0..m-1),  W_m = prod_{v=1}^{m-1} v   -- all in Cantor-index symbols
fn s_m(f: &Field, m: usize, x: usize) -> u16 { let mut p = 1u16; let one = f.from_poly[1]; p = one; for v in 0..m { p = f.mul(p, (x ^ v) as u16); } p }
fn w_m(f: &Field, m: usize) -> u16 { let mut p = f.from_poly[1]; for v in 1..m { p = f.mul(p, v as u16); } p }

fn closedform(f: &Field, high: bool, kmax: usize, rmax: usize) -> bool {
    let mut n = 0u64;
    for k in 1..=kmax { for r in 1..=rmax {
        let m = if high { r.next_power_of_two() } else { k.next_power_of_two() };
        let ok_cfg = if high { HighRate::<NoSimd>::supports(k, r) } else { LowRate::<NoSimd>::supports(k, r) };
        if !ok_cfg { continue; }
        let w = w_m(f, m);
        // unit data sets: original i carries symbol `1` (Cantor index of the field's one) in slot i % 32 ... keep it simple: one encode per i
        for i in 0..k {
            // the unit and a symbol whose two bytes are both non-zero and different (the code is linear, so G[j][i] * a is expected):
            // with the unit alone (high byte 0 in the Cantor representation) a changed pairing of bytes into symbols would go unnoticed
            let one = f.from_poly[1];
            let a: u16 = if (k + r + i) % 2 == 0 { one } else { 0xA5C3u16.wrapping_add((i as u16).wrapping_mul(0x0101)) | 0x0101 };
            let mut originals = vec![vec![0u8; 2]; k];
            originals[i][0] = a as u8; originals[i][1] = (a >> 8) as u8;
            let rec: Vec<Vec<u8>> = if high {
                let mut e = HighRateEncoder::new(k, r, 2, NoSimd::new(), None).unwrap();
                for o in &originals { e.add_original_shard(o).unwrap(); }
                let res = e.encode().unwrap(); res.recovery_iter().map(|s| s.to_vec()).collect()
            } else {
                let mut e = LowRateEncoder::new(k, r, 2, NoSimd::new(), None).unwrap();
                for o in &originals { e.add_original_shard(o).unwrap(); }
                let res = e.encode().unwrap(); res.recovery_iter().map(|s| s.to_vec()).collect()
            };
            for j in 0..r {
                let got = rec[j][0] as u16 | ((rec[j][1] as u16) << 8);
                let g = if high { f.mul(s_m(f, m, m + i), f.inv(f.mul(w, (j ^ (m + i)) as u16))) }
                        else { f.mul(s_m(f, m, m + j), f.inv(f.mul(w, ((m + j) ^ i) as u16))) };
                let want = f.mul(g, a);
                if got != want { println!("FAIL closedform {} k={} r={} i={} j={} got={} want={}", if high {"high"} else {"low"}, k, r, i, j, got, want); return false; }
                n += 1;
            }
        }
    } }
    println!("OK closedform {} {}", if high {"high"} else {"low"}, n);
    true
}


// ---------------------------------------------------------------- helpers
struct Rng(u64);
impl Rng {
    fn new(seed: u64) -> Self { Rng(seed.wrapping_mul(0x9E3779B97F4A7C15) ^ 0xD1B54A32D192ED03) }
    fn next(&mut self) -> u64 { self.0 ^= self.0 << 13; self.0 ^= self.0 >> 7; self.0 ^= self.0 << 17; self.0 }
    fn below(&mut self, n: usize) -> usize { (self.next() % n as u64) as usize }
    fn bytes(&mut self, n: usize) -> Vec<u8> { (0..n).map(|_| self.next() as u8).collect() }
}
fn seed() -> u64 { std::env::var("VERIF_SEED").ok().and_then(|s| s.parse().ok()).unwrap_or(0) }

#[derive(Clone, Copy, PartialEq, Debug)]
enum Codec { High, Low, Default }
fn enc_with<E: Engine>(c: Codec, e: E, k: usize, r: usize, data: &[Vec<u8>]) -> Result<Vec<Vec<u8>>, Error> {
    let sb = data[0].len();
    macro_rules! run { ($t:ty) => {{ let mut x = <$t>::new(k, r, sb, e, None)?; for d in data { x.add_original_shard(d)?; } let res = x.encode()?; Ok(res.recovery_iter().map(|s| s.to_vec()).collect()) }} }
    match c { Codec::High => run!(HighRateEncoder<E>), Codec::Low => run!(LowRateEncoder<E>), Codec::Default => run!(DefaultRateEncoder<E>) }
}
fn dec_with<E: Engine>(c: Codec, e: E, k: usize, r: usize, sb: usize, o: &[(usize, Vec<u8>)], rec: &[(usize, Vec<u8>)]) -> Result<Vec<(usize, Vec<u8>)>, Error> {
    macro_rules! run { ($t:ty) => {{ let mut x = <$t>::new(k, r, sb, e, None)?; for (i, d) in o { x.add_original_shard(*i, d)?; } for (i, d) in rec { x.add_recovery_shard(*i, d)?; }
        let res = x.decode()?; Ok(res.restored_original_iter().map(|(i, s)| (i, s.to_vec())).collect()) }} }
    match c { Codec::High => run!(HighRateDecoder<E>), Codec::Low => run!(LowRateDecoder<E>), Codec::Default => run!(DefaultRateDecoder<E>) }
}
fn codec_ok(c: Codec, k: usize, r: usize) -> bool {
    match c { Codec::High => HighRate::<NoSimd>::supports(k, r), Codec::Low => LowRate::<NoSimd>::supports(k, r), Codec::Default => DefaultRate::<NoSimd>::supports(k, r) }
}

fn kernels_all(which: &str, n: usize, f: &Field) -> bool {
    let mut ok = true;
    for name in ["naive", "nosimd", "ssse3", "avx2"] {
        if which != "all" && which != name { continue; }
        ok &= match name {
            "naive" => kernels_n(name, &Naive::new(), f, n.min(if which == "all" { 2048 } else { n })),
            "nosimd" => kernels_n(name, &NoSimd::new(), f, n),
            #[cfg(target_arch = "x86_64")]
            "ssse3" => if is_x86_feature_detected!("ssse3") { kernels_n(name, &Ssse3::new(), f, n) } else { println!("UNSUPPORTED kernels ssse3 (cpu)"); true },
            #[cfg(target_arch = "x86_64")]
            "avx2" => if is_x86_feature_detected!("avx2") { kernels_n(name, &Avx2::new(), f, n) } else { println!("UNSUPPORTED kernels avx2 (cpu)"); true },
            _ => true,
        };
    }
    ok
}
fn kernels_n<E: Engine + Sync>(name: &str, e: &E, f: &Field, n: usize) -> bool {
    // n values of log_m (all when n >= 65536, else an odd stride from the seed), all 65536 symbols each, 16 threads
    let n = n.min(65536);
    let stride = if n >= 65536 { 1 } else { (Rng::new(seed()).below(32768) * 2 + 1) as u32 };
    let ms: Vec<u16> = (0..n as u32).map(|i| (i.wrapping_mul(stride) % 65536) as u16).collect();
    let bad = std::sync::Mutex::new(None::<String>);
    std::thread::scope(|sc| {
        for chunk in ms.chunks((ms.len() + 15) / 16) {
            let bad = &bad;
            sc.spawn(move || {
                for &m in chunk {
                    for rot in [0usize, 17] {
                        let mut buf = vec![[0u8; 64]; 2048];
                        for s in 0..65536usize { let k = (s + rot) % 65536; put(&mut buf[k / 32], k % 32, s as u16); }
                        e.mul(&mut buf, m);
                        for s in 0..65536usize { let k = (s + rot) % 65536; let got = sym(&buf[k / 32], k % 32); let want = f.mul_log(s as u16, m);
                            if got != want { *bad.lock().unwrap() = Some(format!("symbol={} log_m={} lane={} got={} want={}", s, m, k % 32, got, want)); return; } }
                    }
                }
            });
        }
    });
    if let Some(b) = bad.into_inner().unwrap() { println!("FAIL kernels {} {}", name, b); return false; }
    println!("OK kernels {} {} pairs{}", name, n as u64 * 65536 * 2, if n >= 65536 { " (exhaustive)" } else { " (bounded)" });
    true
}

/// SKEW[j], every j in 0..65535, against the closed form: m = trailing ones of j, r = j + 1 - 2^m,
/// SKEW[j] = dlog( s_m(r) / s_m(2^m) ) with s_m(x) = prod_{v < 2^m} (x ^ v) in Cantor-index symbols, dlog(0) = 65535
fn tables_skew(f: &Field) -> bool {
    let skew = &*reed_solomon_simd::engine::tables::SKEW;
    let dlog = |x: u16| if x == 0 { 65535u32 } else { f.log[f.to_poly[x as usize] as usize] };
    let mut den = [0u32; 16]; for m in 0..16 { den[m] = dlog(s_m(f, 1 << m, 1 << m)); }
    for j in 0..65535usize {
        let m = j.trailing_ones() as usize; let r = j + 1 - (1 << m);
        let num = dlog(s_m(f, 1 << m, r));
        let want = if num == 65535 { 65535 } else { (num + 65535 - den[m]) % 65535 };
        if skew[j] as u32 != want { println!("FAIL tables skew j={} m={} r={} got={} want={}", j, m, r, skew[j], want); return false; }
    }
    println!("OK tables skew all 65535 entries (exhaustive)");
    true
}

fn tables(f: &Field) -> bool {
    use reed_solomon_simd::engine::tables::*;
    if !tables_skew(f) { return false; }
    let exp = &*EXP_LOG.exp; let log = &*EXP_LOG.log;
    // log is the discrete logarithm (base 0x0002) of the polynomial representation of every Cantor-index symbol
    for x in 0..65536usize { let want = if x == 0 { 65535 } else { f.log[f.to_poly[x] as usize] }; if log[x] as u32 != want { println!("FAIL tables log x={} got={} want={}", x, log[x], want); return false; } }
    // exp/log multiply correctly for every (symbol, log_m) pair
    for m in 0..65536usize { for x in (0..65536usize).step_by(1) {
        let got = if x == 0 { 0 } else { let s = log[x] as u32 + m as u32; exp[((s + (s >> 16)) & 0xffff) as usize] };
        if got != f.mul_log(x as u16, m as u16) { println!("FAIL tables exp/log x={} log_m={}", x, m); return false; } } }
    let m16 = &*MUL16;
    for m in 0..65536usize { for k in 0..4 { for n in 0..16usize {
        if m16[m][k][n] != f.mul_log((n << (4 * k)) as u16, m as u16) { println!("FAIL tables mul16 log_m={} k={} n={}", m, k, n); return false; } } } }
    let m128 = &*MUL128;
    for m in 0..65536usize { for k in 0..4 { for n in 0..16usize {
        let p = f.mul_log((n << (4 * k)) as u16, m as u16);
        let lo = (m128[m].lo[k] >> (8 * n)) as u8; let hi = (m128[m].hi[k] >> (8 * n)) as u8;
        if lo != p as u8 || hi != (p >> 8) as u8 { println!("FAIL tables mul128 log_m={} k={} n={}", m, k, n); return false; } } } }
    // LOG_WALSH = Walsh-Hadamard transform (residues mod 65535; 0 and 65535 both stand for 0) of LOG with entry 0 cleared:
    // every row, by a plain O(n log n) transform over i64
    let lw = &*LOG_WALSH;
    let mut w: Vec<i64> = (0..65536usize).map(|j| if j == 0 { 0 } else { log[j] as i64 }).collect();
    let mut h = 1; while h < 65536 { for i in (0..65536).step_by(2 * h) { for j in i..i + h { let (a, b) = (w[j], w[j + h]); w[j] = a + b; w[j + h] = a - b; } } h *= 2; }
    for k in 0..65536usize { let want = w[k].rem_euclid(65535); let got = lw[k] as i64 % 65535;
        if want != got { println!("FAIL tables log_walsh k={} got={} want={}", k, got, want); return false; } }
    println!("OK tables skew, log, exp/log 2^32 pairs, mul16, mul128 all rows, log_walsh all 65536 rows (exhaustive)");
    true
}

fn rand_data(rng: &mut Rng, k: usize, sb: usize) -> Vec<Vec<u8>> { (0..k).map(|_| rng.bytes(sb)).collect() }
/// like rand_data, but about every sixth shard is all zero (exercises code that treats zero shards specially)
fn rand_data_z(rng: &mut Rng, k: usize, sb: usize) -> Vec<Vec<u8>> { (0..k).map(|_| if rng.below(6) == 0 { vec![0u8; sb] } else { rng.bytes(sb) }).collect() }

/// structured data: each 64-byte block (and the shorter last one) is random, all zero, zero in its low half (the low bytes of
/// its symbols) only, zero in its high half only, one repeated byte, or a copy of the same block of the previous shard -
/// the operand shapes a data-dependent shortcut in a kernel would key on
fn rand_data_s(rng: &mut Rng, k: usize, sb: usize) -> Vec<Vec<u8>> {
    let mut out: Vec<Vec<u8>> = Vec::with_capacity(k);
    for i in 0..k {
        let mut s = rng.bytes(sb);
        let mut b = 0;
        while b < sb {
            let l = (sb - b).min(64); let h = l / 2;
            match rng.below(8) {
                0 => for x in &mut s[b..b + l] { *x = 0 },
                1 => for x in &mut s[b..b + h] { *x = 0 },
                2 => for x in &mut s[b + h..b + l] { *x = 0 },
                3 => { let v = s[b]; for x in &mut s[b..b + l] { *x = v } }
                4 if i > 0 => { let p = out[i - 1][b..b + l].to_vec(); s[b..b + l].copy_from_slice(&p); }
                5 if i > 0 => { let p = out[i - 1][b..b + h].to_vec(); s[b..b + h].copy_from_slice(&p); }
                _ => {}
            }
            b += 64;
        }
        out.push(s);
    }
    out
}

fn roundtrip(s: usize) -> bool {
    let mut rng = Rng::new(seed()); let mut n = 0u64;
    for k in 1..s { for r in 1..=(s - k) { for c in [Codec::High, Codec::Low, Codec::Default] {
        if !codec_ok(c, k, r) { continue; }
        let sb = [2usize, 64, 66, 130][rng.below(4)];
        let data = rand_data(&mut rng, k, sb);
        let rec = enc_with(c, NoSimd::new(), k, r, &data).unwrap();
        for mask in 0u32..(1u32 << (k + r)) {
            if (mask.count_ones() as usize) < k { continue; }
            let o: Vec<(usize, Vec<u8>)> = (0..k).filter(|i| mask >> i & 1 == 1).map(|i| (i, data[i].clone())).collect();
            let rc: Vec<(usize, Vec<u8>)> = (0..r).filter(|j| mask >> (k + j) & 1 == 1).map(|j| (j, rec[j].clone())).collect();
            let got = match dec_with(c, NoSimd::new(), k, r, sb, &o, &rc) { Ok(g) => g, Err(e) => { println!("FAIL roundtrip {:?} k={} r={} sb={} mask={:#x} error {:?}", c, k, r, sb, mask, e); return false; } };
            let missing: Vec<usize> = (0..k).filter(|i| mask >> i & 1 == 0).collect();
            if got.iter().map(|x| x.0).collect::<Vec<_>>() != missing || got.iter().any(|(i, d)| *d != data[*i]) {
                println!("FAIL roundtrip {:?} k={} r={} sb={} mask={:#x}", c, k, r, sb, mask); return false; }
            n += 1;
        }
    } } }
    println!("OK roundtrip {} subsets (all (k,r) with k+r <= {}, every subset with >= k members; bounded)", n, s);
    true
}

/// runs the block once per available engine: $name is its name, $mk() makes a fresh engine value of its type
macro_rules! each_engine { ($name:ident, $mk:ident, $body:block) => {{
    { let $name = "nosimd"; let $mk = || NoSimd::new(); $body }
    { let $name = "naive"; let $mk = || Naive::new(); $body }
    #[cfg(target_arch = "x86_64")]
    { if is_x86_feature_detected!("ssse3") { let $name = "ssse3"; let $mk = || Ssse3::new(); $body } }
    #[cfg(target_arch = "x86_64")]
    { if is_x86_feature_detected!("avx2") { let $name = "avx2"; let $mk = || Avx2::new(); $body } }
    { let $name = "default"; let $mk = || DefaultEngine::new(); $body }
}} }
/// the same engines as objects, NoSimd (the reference) first
fn engine_list() -> Vec<(&'static str, Box<dyn Engine>)> {
    let mut v: Vec<(&'static str, Box<dyn Engine>)> = vec![("nosimd", Box::new(NoSimd::new())), ("naive", Box::new(Naive::new()))];
    #[cfg(target_arch = "x86_64")]
    { if is_x86_feature_detected!("ssse3") { v.push(("ssse3", Box::new(Ssse3::new()))); } if is_x86_feature_detected!("avx2") { v.push(("avx2", Box::new(Avx2::new()))); } }
    v.push(("default", Box::new(DefaultEngine::new())));
    v
}
fn shuffle<T>(rng: &mut Rng, v: &mut [T]) { for i in (1..v.len()).rev() { let j = rng.below(i + 1); v.swap(i, j); } }
fn rand_blocks(rng: &mut Rng, n: usize) -> Vec<[u8; 64]> { (0..n).map(|_| { let mut x = [0u8; 64]; for b in x.iter_mut() { *b = rng.next() as u8; } x }).collect() }

/// one configuration on every engine: encode vs NoSimd, decode of a sufficient subset (miss: at least one original is missing) vs the data
fn engines_cfg(rng: &mut Rng, c: Codec, k: usize, r: usize, sb: usize, miss: bool) -> Result<u64, String> {
    let mut cnt = 0u64;
    let data = if rng.below(2) == 0 { rand_data(rng, k, sb) } else { rand_data_s(rng, k, sb) };
    let base = enc_with(c, NoSimd::new(), k, r, &data).unwrap();
    let (o, rc): (Vec<(usize, Vec<u8>)>, Vec<(usize, Vec<u8>)>) = if miss {
        let mut oi: Vec<usize> = (0..k).collect(); shuffle(rng, &mut oi); let mut ri: Vec<usize> = (0..r).collect(); shuffle(rng, &mut ri);
        let m = 1 + rng.below(k.min(r)); let extra = if rng.below(2) == 0 { 0 } else { rng.below(r - m + 1) };
        (oi[m..].iter().map(|&i| (i, data[i].clone())).collect(), ri[..m + extra].iter().map(|&j| (j, base[j].clone())).collect())
    } else {
        let mut idx: Vec<usize> = (0..k + r).collect(); shuffle(rng, &mut idx); let take = &idx[..k];
        (take.iter().filter(|&&i| i < k).map(|&i| (i, data[i].clone())).collect(), take.iter().filter(|&&i| i >= k).map(|&i| (i - k, base[i - k].clone())).collect())
    };
    let missing: Vec<usize> = (0..k).filter(|i| !o.iter().any(|x| x.0 == *i)).collect();
    let at = format!("{:?} k={} r={} sb={} originals={:?} recovery={:?}", c, k, r, sb, o.iter().map(|x| x.0).collect::<Vec<_>>(), rc.iter().map(|x| x.0).collect::<Vec<_>>());
    each_engine!(name, mk, {
        if enc_with(c, mk(), k, r, &data).unwrap() != base { return Err(format!("encode {} vs nosimd {}", name, at)); }
        let d = dec_with(c, mk(), k, r, sb, &o, &rc).unwrap();
        if d.iter().map(|x| x.0).collect::<Vec<_>>() != missing || d.iter().any(|(i, s)| *s != data[*i]) { return Err(format!("decode {} wrong {}", name, at)); }
        cnt += 2;
    });
    Ok(cnt)
}

/// one fft / ifft call on every engine vs NoSimd, compared where the contract specifies the result
fn fft_case(es: &[(&'static str, Box<dyn Engine>)], init: &[[u8; 64]], cntm: usize, len: usize, inv: bool, pos: usize, size: usize, trunc: usize, delta: usize) -> Result<u64, String> {
    let mut start = init.to_vec();
    // ifft: the truncated part of the input has to be zero for the result to be specified
    if inv && trunc < size { for b in start[(pos + trunc) * len..(pos + size) * len].iter_mut() { *b = [0; 64]; } }
    let run = |e: &dyn Engine| { let mut d = start.clone(); { let mut sh = ShardsRefMut::new(cntm, len, &mut d); if inv { e.ifft(&mut sh, pos, size, trunc, delta) } else { e.fft(&mut sh, pos, size, trunc, delta) } } d };
    let a = run(&*es[0].1);
    for (name, e) in &es[1..] {
        let b = run(&**e);
        // fft: shards [pos + truncated_size, pos + size) are unspecified garbage (the input there was not zero)
        for s in 0..cntm { if (inv || s < pos + trunc || s >= pos + size) && a[s * len..(s + 1) * len] != b[s * len..(s + 1) * len] {
            return Err(format!("{} {} vs nosimd size={} truncated_size={} pos={} skew_delta={} blocks={} shard={}", if inv { "ifft" } else { "fft" }, name, size, trunc, pos, delta, len, s)); } }
    }
    Ok(es.len() as u64 - 1)
}

/// part: all | codec (encode / decode level) | primitives (mul, fft / ifft, eval_poly); a FAIL line names the part
fn engines(n: usize, part: &str) -> bool {
    let mut cnt = 0u64;
    if part != "primitives" { match engines_codec(n) { Ok(c) => cnt += c, Err(m) => { println!("FAIL engines-codec {}", m); return false; } } }
    if part != "codec" { match engines_primitives(n) { Ok(c) => cnt += c, Err(m) => { println!("FAIL engines-primitives {}", m); return false; } } }
    println!("OK engines{} {} comparisons (bounded)", if part == "codec" || part == "primitives" { format!("-{}", part) } else { String::new() }, cnt);
    true
}
fn engines_codec(n: usize) -> Result<u64, String> {
    let mut rng = Rng::new(seed()); let mut cnt = 0u64;
    for _ in 0..n {
        let k = 1 + rng.below(40); let r = 1 + rng.below(40); let sb = 2 * (1 + rng.below(100));
        let c = [Codec::High, Codec::Low, Codec::Default][rng.below(3)];
        if !codec_ok(c, k, r) { continue; }
        cnt += engines_cfg(&mut rng, c, k, r, sb, false)?;
    }
    // small configurations, among them decoder work areas of 2^odd shards (final odd fft/ifft layer), with a missing original
    for (k, r) in [(3usize, 2usize), (2, 3), (7, 20), (30, 100), (40, 20), (5, 3), (60, 100)] { for c in [Codec::High, Codec::Low, Codec::Default] { for sb in [64usize, 130] {
        if codec_ok(c, k, r) { cnt += engines_cfg(&mut rng, c, k, r, sb, true)?; }
    } } }
    Ok(cnt)
}
fn engines_primitives(n: usize) -> Result<u64, String> {
    let mut rng = Rng::new(seed() ^ 0x5052494D); let mut cnt = 0u64;
    let es = engine_list();
    // Engine::mul on multi-block buffers
    for t in 0..3 {
        let blocks = [rng.below(6), 2 + rng.below(4), 1 + rng.below(5)][t]; let mut buf = rand_blocks(&mut rng, blocks);
        if t == 2 { for (i, b) in buf.iter_mut().enumerate() { match i % 3 { 0 => for x in &mut b[..32] { *x = 0 }, 1 => for x in &mut b[32..] { *x = 0 }, _ => {} } } }
        for log_m in [rng.next() as u16, 0, 1, 65534, 65535] {
            let mut a = buf.clone(); es[0].1.mul(&mut a, log_m);
            for (name, e) in &es[1..] { let mut b = buf.clone(); e.mul(&mut b, log_m); if a != b { return Err(format!("mul {} vs nosimd blocks={} log_m={}", name, buf.len(), log_m)); } cnt += 1; }
        }
    }
    // fft / ifft, deterministic sweep: every small size, aligned and unaligned position, every small skew_delta and the far end of the skew table, truncation
    for size in [2usize, 4, 8, 16, 32, 64, 128] { for pos in [0usize, 3] { for len in [1usize, 2] {
        let cntm = pos + size + 1; let init = rand_blocks(&mut rng, cntm * len);
        let mut deltas: Vec<usize> = (0..=2 * size + 8).collect(); deltas.push(32765); if 65535 >= pos + size { deltas.push(65535 - pos - size); }
        let mut ts = vec![1, size / 2 + 1, size]; ts.retain(|t| *t <= size); ts.sort(); ts.dedup();
        for &delta in &deltas { if delta + size > 65536 { continue; } for inv in [false, true] { for &t in &ts { cnt += fft_case(&es, &init, cntm, len, inv, pos, size, t, delta)?; } } }
    } } }
    // eval_poly and random fft / ifft
    for _ in 0..n.min(50) {
        let mut e0 = [0u16; 65536]; let t = 1 + rng.below(65536); for i in 0..t { e0[i] = (rng.next() & 1) as u16; }
        let mut a = e0; NoSimd::eval_poly(&mut a, t);
        each_engine!(name, mk, { let mut b = e0; eval_poly_of(&mk, &mut b, t); if a != b { return Err(format!("eval_poly {} t={}", name, t)); } cnt += 1; });
        let size = 1usize << rng.below(7); let pos = size * rng.below(4); let len = 1 + rng.below(3); let cntm = pos + size + rng.below(2); let delta = rng.below(65537 - size);
        let init = rand_blocks(&mut rng, cntm * len); let trunc = if rng.below(2) == 0 { size } else { 1 + rng.below(size) };
        for inv in [false, true] { cnt += fft_case(&es, &init, cntm, len, inv, pos, size, trunc, delta)?; }
    }
    Ok(cnt)
}
fn eval_poly_of<E: Engine, F: Fn() -> E>(_mk: &F, e: &mut [u16; 65536], t: usize) { E::eval_poly(e, t) }

// user-byte positions of symbol slot s of a shard of sb bytes: (low, high)
fn slot_pos(sb: usize, s: usize) -> (usize, usize) { let b = s / 32; let l = s % 32; if b < sb / 64 { (64 * b + l, 64 * b + 32 + l) } else { let t = sb % 64; (64 * b + l, 64 * b + t / 2 + l) } }

fn sizes(max: usize) -> bool {
    let mut rng = Rng::new(seed()); let mut n = 0u64; let mut bad: Option<String> = None;
    for sb in (2..=max).step_by(2) { for (c, k, r) in [(Codec::High, 5usize, 2usize), (Codec::Low, 2, 5), (Codec::Default, 3, 3)] {
        let data = rand_data(&mut rng, k, sb);
        // every engine ("all rates and engines"): the any-size code on that engine against the 2-byte code on the portable one
        each_engine!(name, mk, { if bad.is_none() {
            let rec = enc_with(c, mk(), k, r, &data).unwrap();
            if rec.len() != r || rec.iter().any(|x| x.len() != sb) { bad = Some(format!("recovery length sb={} {:?} engine {}", sb, c, name)); }
            // slot independence with the documented placement: slot s of the outputs = the 2-byte code of slot s of the inputs
            for s in 0..sb / 2 { if bad.is_none() {
                let (lo, hi) = slot_pos(sb, s);
                let small: Vec<Vec<u8>> = data.iter().map(|d| vec![d[lo], d[hi]]).collect();
                let rs = enc_with(c, NoSimd::new(), k, r, &small).unwrap();
                for j in 0..r { if rec[j][lo] != rs[j][0] || rec[j][hi] != rs[j][1] { bad = Some(format!("slot sb={} {:?} engine {} slot={} recovery={}", sb, c, name, s, j)); } }
                n += 1;
            } }
            // restored shards have the size and the bytes
            let o: Vec<(usize, Vec<u8>)> = (r.min(k)..k).map(|i| (i, data[i].clone())).collect();
            let rc: Vec<(usize, Vec<u8>)> = (0..r.min(k)).map(|j| (j, rec[j].clone())).collect();
            let got = dec_with(c, mk(), k, r, sb, &o, &rc).unwrap();
            if bad.is_none() && (got.iter().any(|(i, d)| d.len() != sb || *d != data[*i]) || got.len() != r.min(k)) { bad = Some(format!("restore sb={} {:?} engine {}", sb, c, name)); }
        } });
        if let Some(m) = &bad { println!("FAIL sizes {}", m); return false; }
    } }
    println!("OK sizes {} slots over every even size 2..={}, every engine (bounded)", n, max);
    true
}

/// C08 "every configuration inside the envelope really encodes and decodes": the configurations on the edge of the envelope
/// (one side 2^n, the other 65536 - 2^n; both work-space limits reached) and one step inside, with 2-byte shards; the shards
/// with the highest indexes of both kinds are among those given, originals at both ends are among those restored
fn boundary(full: bool) -> bool {
    let mut rng = Rng::new(seed()); let mut n = 0u64;
    let mut cfgs: Vec<(usize, usize)> = vec![(61440, 4096), (4096, 61440), (32768, 32768), (65535, 1), (1, 65535), (61439, 4096), (4096, 61439), (61440, 2049), (2049, 61440)];
    if full { for e in 0..16 { let p = 1usize << e; cfgs.push((p, 65536 - p)); cfgs.push((65536 - p, p)); if p > 1 { cfgs.push((p - 1, 65536 - p)); cfgs.push((65536 - p, p - 1)); } } }
    for (k, r) in cfgs { for c in [Codec::Default, Codec::High, Codec::Low] {
        if !codec_ok(c, k, r) { continue; }
        let sb = 2usize;
        let data = rand_data(&mut rng, k, sb);
        let res = std::panic::catch_unwind(std::panic::AssertUnwindSafe(|| -> Result<(), String> {
            let rec = enc_with(c, NoSimd::new(), k, r, &data).map_err(|e| format!("encode returned {:?}", e))?;
            if rec.len() != r { return Err(format!("{} recovery shards", rec.len())); }
            // missing: the first and the last original (as many as there are recovery shards, at most 3); given: all other originals,
            // and the recovery shards with the highest indexes
            let m = r.min(k).min(3);
            let mut missing: Vec<usize> = vec![0, k - 1, k / 2]; missing.truncate(m); missing.sort(); missing.dedup();
            let o: Vec<(usize, Vec<u8>)> = (0..k).filter(|i| !missing.contains(i)).map(|i| (i, data[i].clone())).collect();
            let rc: Vec<(usize, Vec<u8>)> = (r - missing.len()..r).rev().map(|j| (j, rec[j].clone())).collect();
            let got = dec_with(c, NoSimd::new(), k, r, sb, &o, &rc).map_err(|e| format!("decode returned {:?}", e))?;
            if got.iter().map(|x| x.0).collect::<Vec<_>>() != missing || got.iter().any(|(i, d)| *d != data[*i]) { return Err("restored originals are wrong".into()); }
            // all originals given (highest index included), plus a recovery shard: nothing to restore
            let all: Vec<(usize, Vec<u8>)> = (0..k).rev().map(|i| (i, data[i].clone())).collect();
            let got = dec_with(c, NoSimd::new(), k, r, sb, &all, &[(r - 1, rec[r - 1].clone())]).map_err(|e| format!("decode with all originals returned {:?}", e))?;
            if !got.is_empty() { return Err("restored originals although all were given".into()); }
            Ok(())
        }));
        match res { Ok(Ok(())) => n += 1, Ok(Err(m)) => { println!("FAIL boundary {:?} {}:{} {}", c, k, r, m); return false; } Err(_) => { println!("FAIL boundary {:?} {}:{} panic (message in the line above)", c, k, r); return false; } }
    } }
    println!("OK boundary {} edge configurations encode and decode (bounded)", n);
    true
}

// streaming references of the one-shot functions: exactly the documented call order
fn stream_dec(k: usize, r: usize, o: &[(usize, Vec<u8>)], rc: &[(usize, Vec<u8>)]) -> Result<std::collections::HashMap<usize, Vec<u8>>, Error> {
    if !ReedSolomonDecoder::supports(k, r) { return Err(Error::UnsupportedShardCount { original_count: k, recovery_count: r }); }
    let sbx = if let Some(f) = rc.first() { f.1.len() } else if let Some(f) = o.first() { f.1.len() } else {
        return Err(Error::NotEnoughShards { original_count: k, original_received_count: 0, recovery_received_count: 0 }) };
    let mut d = ReedSolomonDecoder::new(k, r, sbx)?;
    for (i, s) in o { d.add_original_shard(*i, s)?; }
    for (i, s) in rc { d.add_recovery_shard(*i, s)?; }
    let res = d.decode()?; Ok(res.restored_original_iter().map(|(i, s)| (i, s.to_vec())).collect())
}
fn stream_enc(k: usize, r: usize, e_in: &[Vec<u8>]) -> Result<Vec<Vec<u8>>, Error> {
    if !ReedSolomonEncoder::supports(k, r) { return Err(Error::UnsupportedShardCount { original_count: k, recovery_count: r }); }
    let Some(f) = e_in.first() else { return Err(Error::TooFewOriginalShards { original_count: k, original_received_count: 0 }) };
    let mut e = ReedSolomonEncoder::new(k, r, f.len())?;
    for s in e_in { e.add_original_shard(s)?; }
    let res = e.encode()?; Ok(res.recovery_iter().map(|s| s.to_vec()).collect())
}
/// the items of v in order, with dropped decoys in between: filtering them out gives an iterator whose size_hint is not its length
fn decoyed<T: Clone>(rng: &mut Rng, v: &[T], dummy: T) -> Vec<(bool, T)> {
    let mut out = vec![];
    for x in v { while rng.below(3) == 0 { out.push((false, dummy.clone())); } out.push((true, x.clone())); }
    while rng.below(2) == 0 { out.push((false, dummy.clone())); }
    out
}
/// one-shot decode(); inexact: through iterators that are not exact-size
fn oneshot_dec(rng: &mut Rng, inexact: bool, k: usize, r: usize, o: &[(usize, Vec<u8>)], rc: &[(usize, Vec<u8>)]) -> Result<std::collections::HashMap<usize, Vec<u8>>, Error> {
    if !inexact { return decode(k, r, o.iter().map(|(i, s)| (*i, s)), rc.iter().map(|(i, s)| (*i, s))); }
    let dummy = (usize::MAX, vec![0xEEu8; 6]);
    let (od, rd) = (decoyed(rng, o, dummy.clone()), decoyed(rng, rc, dummy));
    decode(k, r, od.iter().filter(|x| x.0).map(|x| (x.1 .0, &x.1 .1)), rd.iter().filter(|x| x.0).map(|x| (x.1 .0, &x.1 .1)))
}
fn oneshot_enc(rng: &mut Rng, inexact: bool, k: usize, r: usize, e_in: &[Vec<u8>]) -> Result<Vec<Vec<u8>>, Error> {
    if !inexact { return encode(k, r, e_in); }
    let ed = decoyed(rng, e_in, vec![0xEEu8; 6]);
    encode(k, r, ed.iter().filter(|x| x.0).map(|x| &x.1))
}

fn oneshot(n: usize) -> bool {
    let mut rng = Rng::new(seed()); let mut cnt = 0u64;
    let lens = |x: &[(usize, Vec<u8>)]| x.iter().map(|x| (x.0, x.1.len())).collect::<Vec<_>>();
    // deterministic sessions without recovery shards: more originals than original_count (duplicates, out of range),
    // original_count != recovery_count with all / not all originals; expected outcome stated here and checked against the streaming API too
    {
        use Error::*;
        let s: Vec<Vec<u8>> = (0..6).map(|_| rng.bytes(64)).collect(); let w = rng.bytes(62);
        let o = |v: &[(usize, usize)]| v.iter().map(|&(i, d)| (i, if d == 9 { w.clone() } else { s[d].clone() })).collect::<Vec<_>>();
        let dup = |i| Err(DuplicateOriginalShardIndex { index: i }); let inv = |k, i| Err(InvalidOriginalShardIndex { original_count: k, index: i });
        let few = |k, g| Err(NotEnoughShards { original_count: k, original_received_count: g, recovery_received_count: 0 });
        let sessions: Vec<(usize, usize, Vec<(usize, Vec<u8>)>, Result<(), Error>)> = vec![
            (2, 1, o(&[(0, 0), (1, 1), (1, 2)]), dup(1)), (2, 1, o(&[(0, 0), (1, 1), (0, 2)]), dup(0)), (2, 1, o(&[(0, 0), (1, 1), (1, 1)]), dup(1)),
            (2, 1, o(&[(1, 0), (1, 1)]), dup(1)), (2, 1, o(&[(0, 0), (0, 0)]), dup(0)), (2, 1, o(&[(0, 0), (1, 1), (1, 9)]), dup(1)),
            (2, 1, o(&[(0, 0), (1, 1), (2, 2)]), inv(2, 2)), (2, 1, o(&[(0, 0), (1, 1), (usize::MAX, 2)]), inv(2, usize::MAX)), (2, 1, o(&[(0, 0), (3, 1)]), inv(2, 3)),
            (1, 1, o(&[(0, 0), (0, 1)]), dup(0)), (1, 1, o(&[(0, 0), (0, 0)]), dup(0)), (1, 1, o(&[(0, 0), (1, 1)]), inv(1, 1)), (1, 1, o(&[(0, 0), (usize::MAX, 1)]), inv(1, usize::MAX)),
            (1, 1, o(&[(1, 0)]), inv(1, 1)), (1, 3, o(&[(0, 0), (0, 1)]), dup(0)), (1, 3, o(&[(0, 0), (2, 1)]), inv(1, 2)), (1, 1, o(&[(0, 0)]), Ok(())), (1, 5, o(&[(0, 0)]), Ok(())),
            (3, 1, o(&[(0, 0), (1, 1), (2, 2)]), Ok(())), (3, 1, o(&[(2, 0), (0, 1), (1, 2)]), Ok(())), (2, 5, o(&[(0, 0), (1, 1)]), Ok(())), (5, 2, o(&[(0, 0), (1, 1), (2, 2), (3, 3), (4, 4)]), Ok(())),
            (3, 1, o(&[(0, 0)]), few(3, 1)), (3, 1, o(&[(2, 0), (0, 1)]), few(3, 2)), (2, 5, o(&[(1, 1)]), few(2, 1)), (5, 2, o(&[(0, 0), (1, 1), (2, 2), (4, 4)]), few(5, 4)), (4, 1, o(&[(0, 0), (1, 1), (2, 2)]), few(4, 3)),
            (3, 1, o(&[(0, 0), (1, 1), (1, 2)]), dup(1)), (3, 1, o(&[(0, 0), (1, 1), (2, 2), (2, 3)]), dup(2)), (3, 1, o(&[(0, 0), (1, 1), (2, 2), (3, 3)]), inv(3, 3)),
            (2, 1, o(&[(0, 0), (1, 9)]), Err(DifferentShardSize { shard_bytes: 64, got: 62 })), (2, 5, o(&[(1, 9), (0, 0)]), Err(DifferentShardSize { shard_bytes: 62, got: 64 })),
        ];
        for (k, r, o, want) in &sessions { for inexact in [false, true] {
            let got = oneshot_dec(&mut rng, inexact, *k, *r, o, &[]); let st = stream_dec(*k, *r, o, &[]);
            if got != st || got.as_ref().map(|m| m.len()).map_err(|e| *e) != want.map(|_| 0) { println!("FAIL oneshot decode (no recovery{}) k={} r={} originals={:?} got={:?} streaming={:?} want={:?}", if inexact { ", inexact iterators" } else { "" }, k, r, lens(o), got.as_ref().map(|m| m.len()), st.as_ref().map(|m| m.len()), want); return false; }
            cnt += 1;
        } }
    }
    // extreme counts: the one-shot functions must answer like the streaming constructors (Err, never a panic or an abort)
    {
        let a = rng.bytes(64); let b = rng.bytes(64);
        for &(k, r) in &[(usize::MAX, 1usize), (1usize, usize::MAX), (usize::MAX, usize::MAX), (1usize << 61, 1), (1, 1usize << 61), (0, 1), (1, 0), (65536, 1), (1, 65536), (65536, 65536), (40000, 40000), (65535, 2), (2, 65535)] {
            let o = vec![(0usize, a.clone())]; let rc = vec![(0usize, b.clone())];
            let want = stream_dec(k, r, &o, &rc).map(|m| m.len()); let got = oneshot_dec(&mut rng, false, k, r, &o, &rc).map(|m| m.len());
            if got != want { println!("FAIL oneshot decode extreme counts k={} r={} got={:?} want={:?}", k, r, got, want); return false; }
            let e_in = vec![a.clone()];
            let want = stream_enc(k, r, &e_in).map(|m| m.len()); let got = oneshot_enc(&mut rng, false, k, r, &e_in).map(|m| m.len());
            if got != want { println!("FAIL oneshot encode extreme counts k={} r={} got={:?} want={:?}", k, r, got, want); return false; }
            cnt += 2;
        }
    }
    for _ in 0..n {
        let k = rng.below(6); let r = rng.below(6); let sb = [2usize, 4, 64, 66, 3, 0][rng.below(6)];
        let inexact = rng.below(2) == 0;
        // a mostly valid session, perturbed
        let data = rand_data(&mut rng, k.max(1), if sb % 2 == 0 && sb > 0 { sb } else { 2 });
        let rec = if k >= 1 && r >= 1 { enc_with(Codec::Default, NoSimd::new(), k, r, &data).unwrap_or_default() } else { vec![] };
        let mut o: Vec<(usize, Vec<u8>)> = (0..k).filter(|_| rng.below(3) > 0).map(|i| (i, data[i].clone())).collect();
        let mut rc: Vec<(usize, Vec<u8>)> = (0..rec.len()).filter(|_| rng.below(3) > 0).map(|j| (j, rec[j].clone())).collect();
        match rng.below(8) {
            0 if !o.is_empty() => { let d = o[0].clone(); o.push(d); }                       // duplicate original
            1 if !rc.is_empty() => { let d = rc[0].clone(); rc.push(d); }                    // duplicate recovery
            2 if !o.is_empty() => { o[0].0 = [k, usize::MAX, k + 7][rng.below(3)]; }         // index out of range
            3 if !rc.is_empty() => { rc[0].0 = [r, usize::MAX][rng.below(2)]; }
            4 if !o.is_empty() => { let l = o.len() - 1; o[l].1 = rng.bytes(sb + 2); }        // different size
            5 if !rc.is_empty() => { rc[0].1 = rng.bytes(3); }                                // odd size of the first recovery
            6 => { rc.clear(); }                                                              // no recovery at all
            _ => {}
        }
        shuffle(&mut rng, &mut o);
        let want = stream_dec(k, r, &o, &rc);
        let got = oneshot_dec(&mut rng, inexact, k, r, &o, &rc);
        if got != want { println!("FAIL oneshot decode{} k={} r={} originals={:?} recovery={:?} got={:?} want={:?}", if inexact { " (inexact iterators)" } else { "" }, k, r, lens(&o), lens(&rc), got.as_ref().map(|m| m.len()), want.as_ref().map(|m| m.len())); return false; }
        cnt += 1;
        // a failed one-shot call must not influence the next one (no hidden state between calls): right after a failing
        // session, a clean session with the same counts and shard size must still agree with the streaming API
        if want.is_err() && k >= 1 && r >= 1 && !rec.is_empty() {
            let o2: Vec<(usize, Vec<u8>)> = (1..k).map(|i| (i, data[i].clone())).collect();
            let rc2: Vec<(usize, Vec<u8>)> = vec![(0, rec[0].clone())];
            let want2 = stream_dec(k, r, &o2, &rc2); let got2 = oneshot_dec(&mut rng, false, k, r, &o2, &rc2);
            if got2 != want2 { println!("FAIL oneshot decode after a failed call k={} r={} originals={:?} recovery={:?} got={:?} want={:?}", k, r, lens(&o2), lens(&rc2), got2.as_ref().map(|m| m.len()), want2.as_ref().map(|m| m.len())); return false; }
            cnt += 1;
        }
        // encode
        let mut e_in: Vec<Vec<u8>> = data.iter().take(k).cloned().collect();
        match rng.below(5) { 0 => { e_in.pop(); } 1 => { e_in.push(rng.bytes(2)); } 2 if !e_in.is_empty() => { let l = e_in.len() - 1; e_in[l] = rng.bytes(sb + 2); } 3 => { e_in.clear(); } _ => {} }
        let want = stream_enc(k, r, &e_in); let got = oneshot_enc(&mut rng, inexact, k, r, &e_in);
        if got != want { println!("FAIL oneshot encode{} k={} r={} sizes={:?} got={:?} want={:?}", if inexact { " (inexact iterator)" } else { "" }, k, r, e_in.iter().map(|x| x.len()).collect::<Vec<_>>(), got.as_ref().map(|m| m.len()), want.as_ref().map(|m| m.len())); return false; }
        cnt += 1;
    }
    println!("OK oneshot {} sessions (bounded)", cnt);
    true
}

/// two data sets of k shards of sb bytes for the linearity checks; kind 0 is random, the others are structured
fn lin_data(rng: &mut Rng, kind: usize, k: usize, sb: usize) -> (Vec<Vec<u8>>, Vec<Vec<u8>>) {
    let mut a = rand_data(rng, k, sb); let mut b = rand_data(rng, k, sb);
    match kind {
        1 => { for d in a.iter_mut().chain(b.iter_mut()) { for t in 0..sb { if t % 64 < 32 { d[t] = 0; } } } }                       // first half of every block zero
        2 => { for i in 0..k { for t in 0..sb { if t % 64 < 32 { b[i][t] = a[i][t]; } else { b[i][t] = a[i][t] ^ (1 + rng.below(255)) as u8; } } } }  // first halves equal, second halves differ
        3 => { for d in a.iter_mut().chain(b.iter_mut()) { d.fill(0); } a[rng.below(k)][rng.below(sb)] = 1 + rng.below(255) as u8; b[rng.below(k)][rng.below(sb)] = 1 + rng.below(255) as u8; } // a single non-zero byte
        4 => { for i in 1..k { a[i] = a[0].clone(); b[i] = b[0].clone(); } }                                                         // all shards equal
        5 => { let (x, y) = (rng.next() as u8, rng.next() as u8); for i in 0..k { a[i].fill(x); b[i].fill(y); } }                    // all bytes equal
        _ => {}
    }
    (a, b)
}
/// encode random data, drop the result, then all-zero originals on the same object: the recovery must be all zero
fn second_round_zero<E: Engine>(rng: &mut Rng, c: Codec, e: E, k: usize, r: usize, sb: usize) -> bool {
    let data = rand_data(rng, k, sb);
    macro_rules! run { ($t:ty) => {{ let mut x = <$t>::new(k, r, sb, e, None).unwrap();
        for d in &data { x.add_original_shard(d).unwrap(); } { let res = x.encode().unwrap(); let _ = res.recovery(0).unwrap()[0]; }
        for _ in 0..k { x.add_original_shard(vec![0u8; sb]).unwrap(); } let res = x.encode().unwrap();
        let n = res.recovery_iter().count(); n == r && res.recovery_iter().all(|s| s.len() == sb && s.iter().all(|&v| v == 0)) }} }
    match c { Codec::High => run!(HighRateEncoder<E>), Codec::Low => run!(LowRateEncoder<E>), Codec::Default => run!(DefaultRateEncoder<E>) }
}

fn linearity(n: usize, f: &Field) -> bool {
    let mut rng = Rng::new(seed()); let mut cnt = 0u64;
    for it in 0..n {
        let k = 1 + rng.below(20); let r = 1 + rng.below(20); let sb = if rng.below(2) == 0 { 2 * (1 + rng.below(70)) } else { [64usize, 128, 192, 66, 130, 32][rng.below(6)] };
        let c = [Codec::High, Codec::Low, Codec::Default][rng.below(3)];
        if !codec_ok(c, k, r) { continue; }
        let kind = if it % 2 == 0 { 0 } else { 1 + (it / 2) % 5 };
        let (a, b) = lin_data(&mut rng, kind, k, sb);
        let x: Vec<Vec<u8>> = a.iter().zip(&b).map(|(p, q)| p.iter().zip(q).map(|(u, v)| u ^ v).collect()).collect();
        // scalar multiple: every symbol times the constant g (Cantor-index symbol), with the documented placement
        let g = (1 + rng.below(65535)) as u16;
        let scale = |d: &Vec<u8>| { let mut o = d.clone(); for s in 0..sb / 2 { let (lo, hi) = slot_pos(sb, s); let v = f.mul(d[lo] as u16 | ((d[hi] as u16) << 8), g); o[lo] = v as u8; o[hi] = (v >> 8) as u8; } o };
        let sa: Vec<Vec<u8>> = a.iter().map(scale).collect();
        each_engine!(name, mk, {
            let at = format!("{} {:?} k={} r={} sb={} input-kind={}", name, c, k, r, sb, kind);
            let (ra, rb, rx) = (enc_with(c, mk(), k, r, &a).unwrap(), enc_with(c, mk(), k, r, &b).unwrap(), enc_with(c, mk(), k, r, &x).unwrap());
            for j in 0..r { for t in 0..sb { if rx[j][t] != ra[j][t] ^ rb[j][t] { println!("FAIL linearity additivity {} recovery={} byte={}", at, j, t); return false; } } }
            let z = enc_with(c, mk(), k, r, &vec![vec![0u8; sb]; k]).unwrap();
            if z.iter().any(|s| s.iter().any(|&v| v != 0)) { println!("FAIL linearity zero {}", at); return false; }
            let rs = enc_with(c, mk(), k, r, &sa).unwrap();
            for j in 0..r { if rs[j] != scale(&ra[j]) { println!("FAIL linearity scalar {} g={} recovery={}", at, g, j); return false; } }
            if !second_round_zero(&mut rng, c, mk(), k, r, sb) { println!("FAIL linearity second-round-zero {}", at); return false; }
            cnt += 4;
        });
    }
    // second round on the same encoder object, small configurations with a padded first chunk
    for (k, r) in [(3usize, 4usize), (5, 8), (3, 3), (5, 7), (1, 1), (2, 3), (9, 5)] { for c in [Codec::Default, Codec::High, Codec::Low] { for sb in [64usize, 128, 2, 66] {
        if !codec_ok(c, k, r) { continue; }
        each_engine!(name, mk, { if !second_round_zero(&mut rng, c, mk(), k, r, sb) { println!("FAIL linearity second-round-zero {} {:?} k={} r={} sb={}", name, c, k, r, sb); return false; } cnt += 1; });
    } } }
    println!("OK linearity {} checks (bounded)", cnt);
    true
}

// ---------------------------------------------------------------- counting allocator (C17)
struct Counting;
static BIG: std::sync::atomic::AtomicUsize = std::sync::atomic::AtomicUsize::new(0);
static THRESH: std::sync::atomic::AtomicUsize = std::sync::atomic::AtomicUsize::new(usize::MAX);
unsafe impl std::alloc::GlobalAlloc for Counting {
    unsafe fn alloc(&self, l: std::alloc::Layout) -> *mut u8 { if l.size() >= THRESH.load(std::sync::atomic::Ordering::Relaxed) { BIG.fetch_add(1, std::sync::atomic::Ordering::Relaxed); } std::alloc::System.alloc(l) }
    unsafe fn dealloc(&self, p: *mut u8, l: std::alloc::Layout) { std::alloc::System.dealloc(p, l) }
    unsafe fn realloc(&self, p: *mut u8, l: std::alloc::Layout, n: usize) -> *mut u8 { if n >= THRESH.load(std::sync::atomic::Ordering::Relaxed) { BIG.fetch_add(1, std::sync::atomic::Ordering::Relaxed); } std::alloc::System.realloc(p, l, n) }
}
#[global_allocator]
static GLOBAL: Counting = Counting;

fn alloc(n: usize) -> bool {
    let mut rng = Rng::new(seed());
    // (original_count, recovery_count, shard_bytes, non-growing alternatives to reset to and back from)
    // high rate with long shards; low rate (its decode evaluates the locator over the whole field); many positions with
    // 64-byte shards (there the index bitmap, 1 bit per position, is the larger part of what a reset could re-allocate);
    // a shard size whose successor needs exactly the same number of 64-byte blocks (a reset that asks for more than the need)
    let scen: [(usize, usize, usize, [(usize, usize, usize); 4]); 4] = [
        (20, 12, 4096, [(20, 12, 4096), (12, 20, 4096), (4, 2, 64), (20, 12, 4094)]),
        (12, 20, 1024, [(12, 20, 1024), (20, 12, 512), (2, 4, 64), (12, 20, 1022)]),
        (2048, 2048, 64, [(1024, 1024, 64), (2048, 100, 64), (100, 2048, 64), (2048, 2048, 62)]),
        (8, 4, 1000, [(8, 4, 1024), (8, 4, 1024), (8, 4, 962), (4, 8, 1024)]),
    ];
    for (k, r, sb, alts) in scen {
        let mut ok = true;
        each_engine!(name, mk, {
            // the naive engine is quadratic: not on the large configuration
            if ok && !(name == "naive" && k > 100) { ok = alloc_scenario(&mut rng, name, mk, k, r, sb, &alts, if k > 100 { n.min(6) } else { n }); }
        });
        if !ok { return false; }
    }
    true
}

fn alloc_scenario<E: Engine, F: Fn() -> E>(rng: &mut Rng, name: &str, mk: F, k: usize, r: usize, sb: usize, alts: &[(usize, usize, usize); 4], n: usize) -> bool {
    use std::sync::atomic::Ordering::Relaxed;
    // one 64-byte block is the unit of working space: an allocation of at least that much inside a round or a non-growing
    // reset is working space being allocated again (shard buffer, index bitmap of a large configuration, per-round scratch)
    let thresh = 64usize;
    let data = rand_data(rng, k, sb);
    let mut e = DefaultRateEncoder::<E>::new(k, r, sb, mk(), None).unwrap();
    let mut d = DefaultRateDecoder::<E>::new(k, r, sb, mk(), None).unwrap();
    for s in &data { e.add_original_shard(s).unwrap(); }
    let rec: Vec<Vec<u8>> = e.encode().unwrap().recovery_iter().map(|s| s.to_vec()).collect();
    let miss = r.min(k);     // originals 0..miss are not given: the decoder has to restore them
    // warm-up round: the first decode initialises the shared lookup tables (one-time, not working space)
    for i in miss..k { d.add_original_shard(i, &data[i]).unwrap(); }
    for j in 0..miss { d.add_recovery_shard(j, &rec[j]).unwrap(); }
    { let res = d.decode().unwrap(); let _ = res.restored_original(0).unwrap()[0]; }
    THRESH.store(thresh, Relaxed); BIG.store(0, Relaxed);
    for round in 0..n {
        for s in &data { e.add_original_shard(s).unwrap(); }
        { let res = e.encode().unwrap(); let _ = res.recovery(0).unwrap()[0]; }
        for i in miss..k { d.add_original_shard(i, &data[i]).unwrap(); }
        for j in 0..miss { d.add_recovery_shard(j, &rec[j]).unwrap(); }
        { let res = d.decode().unwrap(); let _ = res.restored_original(0).unwrap()[0]; }
        if round % 3 == 2 {
            // non-growing resets: no more work space than is held, either rate, then back to what the object already held
            let (k2, r2, sb2) = alts[rng.below(4)];
            e.reset(k2, r2, sb2).unwrap(); d.reset(k2, r2, sb2).unwrap();
            e.reset(k, r, sb).unwrap(); d.reset(k, r, sb).unwrap();
        }
        let big = BIG.load(Relaxed);
        if big != 0 { THRESH.store(usize::MAX, Relaxed); println!("FAIL alloc engine {} {}:{} x {} bytes: {} allocation(s) of >= {} bytes in round {}", name, k, r, sb, big, thresh, round); return false; }
    }
    THRESH.store(usize::MAX, Relaxed);
    println!("OK alloc engine {} {}:{} x {} bytes: {} rounds and non-growing resets without an allocation of >= {} bytes (bounded)", name, k, r, sb, n, thresh);
    true
}

fn defects(which: &str) -> bool {
    use std::panic::catch_unwind;
    let mut ok = true;
    let sel = |d: &str| which == "all" || which == d;
    if sel("D1") {
    let r = catch_unwind(|| { let mut e = ReedSolomonEncoder::new(2, 3, 64).unwrap(); let _ = e.reset(2, 3, 63); e.add_original_shard([0u8; 64]).is_ok() });
    if !matches!(r, Ok(true)) { println!("FAIL D1 failed reset leaves the encoder unusable: new(2,3,64); reset(2,3,63) -> Err; add_original_shard panics"); ok = false; }
    }
    if sel("D2") {
    let r = catch_unwind(|| { let mut d = ReedSolomonDecoder::new(3, 2, 64).unwrap(); d.add_original_shard(usize::MAX, [0u8; 64]).is_err() });
    if !matches!(r, Ok(true)) { println!("FAIL D2 ReedSolomonDecoder::new(3,2,64).add_original_shard(usize::MAX, ..) panics (overflow) instead of InvalidOriginalShardIndex"); ok = false; }
    }
    if sel("D3") {
    let a = [1u8; 64];
    if decode(2, 1, [(0usize, &a[..]), (0usize, &a[..])], [(0usize, &a[..]); 0]).is_ok() { println!("FAIL D3 one-shot decode accepts a duplicate index"); ok = false; }
    }
    if ok { println!("OK defects {} (regression inputs of the repaired defects)", which); }
    ok
}

// ---------------------------------------------------------------- histories: one reused object vs fresh objects
#[derive(Clone, Copy, PartialEq, Debug)]
enum Kind { Rs, Def, High, Low }
fn kind_codec(k: Kind) -> Codec { match k { Kind::Rs | Kind::Def => Codec::Default, Kind::High => Codec::High, Kind::Low => Codec::Low } }
type Cfg = (usize, usize, usize);

enum Enc { Rs(ReedSolomonEncoder), Def(DefaultRateEncoder<NoSimd>), High(HighRateEncoder<NoSimd>), Low(LowRateEncoder<NoSimd>) }
macro_rules! enc_do { ($s:expr, $x:ident => $b:expr) => { match $s { Enc::Rs($x) => $b, Enc::Def($x) => $b, Enc::High($x) => $b, Enc::Low($x) => $b } } }
impl Enc {
    fn new(kind: Kind, (k, r, sb): Cfg, w: Option<EncoderWork>) -> Result<Enc, Error> {
        Ok(match kind { Kind::Rs => Enc::Rs(ReedSolomonEncoder::new(k, r, sb)?), Kind::Def => Enc::Def(DefaultRateEncoder::new(k, r, sb, NoSimd::new(), w)?),
            Kind::High => Enc::High(HighRateEncoder::new(k, r, sb, NoSimd::new(), w)?), Kind::Low => Enc::Low(LowRateEncoder::new(k, r, sb, NoSimd::new(), w)?) })
    }
    fn add(&mut self, s: &[u8]) -> Result<(), Error> { enc_do!(self, x => x.add_original_shard(s)) }
    fn reset(&mut self, (k, r, sb): Cfg) -> Result<(), Error> { enc_do!(self, x => x.reset(k, r, sb)) }
    /// recovery shards by the iterator; the flag says that recovery(i) agrees with it and is None from recovery_count on, and that the iterator stays at None
    fn encode(&mut self) -> Result<(Vec<Vec<u8>>, bool), Error> { enc_do!(self, x => { let res = x.encode()?; let mut it = res.recovery_iter(); let mut v: Vec<Vec<u8>> = vec![];
        while let Some(s) = it.next() { v.push(s.to_vec()); } let fused = (0..3).all(|_| it.next().is_none());
        // the standard iterator adaptors built on `next` (skip / nth / step_by, also on a partly consumed iterator) see the same sequence
        let adapt = {
            let a: Vec<Vec<u8>> = res.recovery_iter().skip(1).take(v.len() + 2).map(|s| s.to_vec()).collect();
            let b: Vec<Vec<u8>> = res.recovery_iter().step_by(2).take(v.len() + 2).map(|s| s.to_vec()).collect();
            let mut it2 = res.recovery_iter(); let first = it2.next().map(|s| s.to_vec()); let third = it2.nth(1).map(|s| s.to_vec());
            a == v.iter().skip(1).cloned().collect::<Vec<_>>() && b == v.iter().step_by(2).cloned().collect::<Vec<_>>()
                && first == v.first().cloned() && third == v.get(2).cloned()
        };
        let acc = fused && adapt && (0..v.len()).all(|i| res.recovery(i) == Some(&v[i][..])) && [v.len(), v.len() + 1, usize::MAX, usize::MAX - 1].iter().all(|&i| res.recovery(i).is_none()); Ok((v, acc)) }) }
    fn into_work(self) -> EncoderWork { match self { Enc::Rs(_) => unreachable!(), Enc::Def(x) => x.into_parts().1, Enc::High(x) => x.into_parts().1, Enc::Low(x) => x.into_parts().1 } }
}

#[derive(PartialEq, Debug)]
struct DecOut { iter: Vec<(usize, Vec<u8>)>, fused: bool, probe: Vec<(usize, Option<Vec<u8>>)> }
enum Dec { Rs(ReedSolomonDecoder), Def(DefaultRateDecoder<NoSimd>), High(HighRateDecoder<NoSimd>), Low(LowRateDecoder<NoSimd>) }
macro_rules! dec_do { ($s:expr, $x:ident => $b:expr) => { match $s { Dec::Rs($x) => $b, Dec::Def($x) => $b, Dec::High($x) => $b, Dec::Low($x) => $b } } }
impl Dec {
    fn new(kind: Kind, (k, r, sb): Cfg, w: Option<DecoderWork>) -> Result<Dec, Error> {
        Ok(match kind { Kind::Rs => Dec::Rs(ReedSolomonDecoder::new(k, r, sb)?), Kind::Def => Dec::Def(DefaultRateDecoder::new(k, r, sb, NoSimd::new(), w)?),
            Kind::High => Dec::High(HighRateDecoder::new(k, r, sb, NoSimd::new(), w)?), Kind::Low => Dec::Low(LowRateDecoder::new(k, r, sb, NoSimd::new(), w)?) })
    }
    fn add(&mut self, rec: bool, i: usize, s: &[u8]) -> Result<(), Error> { dec_do!(self, x => if rec { x.add_recovery_shard(i, s) } else { x.add_original_shard(i, s) }) }
    fn reset(&mut self, (k, r, sb): Cfg) -> Result<(), Error> { dec_do!(self, x => x.reset(k, r, sb)) }
    fn decode(&mut self, probes: &[usize]) -> Result<DecOut, Error> { dec_do!(self, x => { let res = x.decode()?;
        let mut it = res.restored_original_iter(); let mut iter = vec![]; while let Some((i, s)) = it.next() { iter.push((i, s.to_vec())); }
        Ok(DecOut { iter, fused: (0..3).all(|_| it.next().is_none()), probe: probes.iter().map(|&i| (i, res.restored_original(i).map(|s| s.to_vec()))).collect() }) }) }
    fn into_work(self) -> DecoderWork { match self { Dec::Rs(_) => unreachable!(), Dec::Def(x) => x.into_parts().1, Dec::High(x) => x.into_parts().1, Dec::Low(x) => x.into_parts().1 } }
}

const HSIZES: [usize; 9] = [2, 4, 62, 64, 66, 100, 120, 128, 130];
const HCOUNTS: [(usize, usize); 14] = [(3, 5), (5, 3), (5, 7), (7, 5), (3, 3), (3, 4), (5, 8), (2, 3), (3, 2), (1, 1), (1, 5), (6, 1), (9, 3), (3, 9)];
/// the next configuration: often the same counts and the same number of 64-byte blocks with another size % 64
fn pick_cfg(rng: &mut Rng, prev: Option<Cfg>, kind: Kind) -> Cfg {
    loop {
        let (k, r, sb) = match prev {
            Some((k, r, sb)) if rng.below(2) == 0 => { let c: Vec<usize> = HSIZES.iter().copied().filter(|s| s.div_ceil(64) == sb.div_ceil(64) && *s != sb).collect();
                (k, r, if c.is_empty() { sb } else { c[rng.below(c.len())] }) }
            _ => { let (k, r) = match rng.below(10) { 0..=3 => HCOUNTS[rng.below(HCOUNTS.len())], 4..=6 => (1 + rng.below(12), 1 + rng.below(12)), 7 => (1 + rng.below(40), 1 + rng.below(40)),
                    8 => (33 + rng.below(100), 1 + rng.below(16)), _ => (1 + rng.below(16), 33 + rng.below(100)) };   // many on one side, few on the other: bitmap blocks that are not aligned with the region
                (k, r, HSIZES[rng.below(HSIZES.len())]) } };
        if codec_ok(kind_codec(kind), k, r) { return (k, r, sb); }
    }
}
fn wrong_len(rng: &mut Rng, sb: usize) -> usize { [sb + 2, if sb > 2 { sb - 2 } else { sb + 4 }, sb + 64, sb - 1, sb + 1, 0][rng.below(6)] }
/// a reset that must fail: unsupported counts, or supported counts (same, swapped, other) with an odd / zero shard size
fn bad_reset(rng: &mut Rng, (k, r, sb): Cfg) -> (Cfg, Error) {
    if rng.below(2) == 0 { let (k2, r2) = [(0, r), (k, 0), (0, 0), (65536, r), (40000, 40000), (k, 65536)][rng.below(6)]; ((k2, r2, sb), Error::UnsupportedShardCount { original_count: k2, recovery_count: r2 }) }
    else { let (k2, r2) = [(k, r), (r, k), (2, 3), (3, 2)][rng.below(4)]; let s2 = [0, 0, 1, sb + 1, 63, 65][rng.below(6)]; ((k2, r2, s2), Error::InvalidShardSize { shard_bytes: s2 }) }
}
macro_rules! expect_err { ($log:expr, $what:expr, $got:expr, $want:expr) => {{ let (g, w) = ($got, $want); $log.push(format!("!{}", $what)); if g != Some(w) { return Err(format!("{} returned {:?}, expected Err({:?})", $what, g.map(Err::<(), Error>).unwrap_or(Ok(())), w)); } }} }

/// what a round may contain: failing calls (1-in-`inject` chance before every call, 0 = never; force: at least one), an abandoned round,
/// the same shards again after the result was dropped, the top indexes among the given shards
#[derive(Clone, Copy)]
struct HOpts { inject: usize, force: bool, abandon: bool, again: bool, top: bool }

/// one encoder round on the reused object; Ok(false): abandoned without encode
fn enc_round(rng: &mut Rng, log: &mut Vec<String>, obj: &mut Enc, kind: Kind, cfg: Cfg, o: HOpts) -> Result<bool, String> {
    let (k, r, sb) = cfg;
    let data = rand_data_z(rng, k, sb);
    let abandon = if o.abandon && rng.below(8) == 0 { Some(rng.below(k + 1)) } else { None };
    let mut inj = 0;
    for i in 0..=k {
        if abandon == Some(i) { log.push(format!("add*{} abandon", i)); return Ok(false); }
        // calls that must fail and must change nothing (each is followed by at least the next add / the encode)
        while (o.inject > 0 && rng.below(o.inject) == 0) || (o.force && i == k && inj == 0) { inj += 1; match rng.below(4) {
            0 => { let l = wrong_len(rng, sb); let want = if i == k { Error::TooManyOriginalShards { original_count: k } } else { Error::DifferentShardSize { shard_bytes: sb, got: l } };
                expect_err!(log, format!("add#{}(len {})", i, l), obj.add(&rng.bytes(l)).err(), want); }
            1 if i == k => expect_err!(log, format!("add#{}", i), obj.add(&rng.bytes(sb)).err(), Error::TooManyOriginalShards { original_count: k }),
            1 | 2 if i < k => expect_err!(log, format!("encode@{}", i), obj.encode().err(), Error::TooFewOriginalShards { original_count: k, original_received_count: i }),
            _ => { let (c2, want) = bad_reset(rng, cfg); expect_err!(log, format!("reset{:?}@{}", c2, i), obj.reset(c2).err(), want); }
        } }
        if i < k { obj.add(&data[i]).map_err(|e| format!("add_original_shard #{} of {} returned {:?}", i, k, e))?; }
    }
    log.push(format!("add*{} encode", k));
    let (got, acc) = obj.encode().map_err(|e| format!("encode returned {:?}", e))?;
    if !acc { return Err("recovery(i) disagrees with recovery_iter() or is not None beyond recovery_count".into()); }
    let mut fresh = Enc::new(kind, cfg, None).map_err(|e| format!("fresh encoder {:?}", e))?;
    for d in &data { fresh.add(d).map_err(|e| format!("fresh encoder add {:?}", e))?; }
    let (want, _) = fresh.encode().map_err(|e| format!("fresh encoder encode {:?}", e))?;
    if got.len() != r || want.len() != r { return Err(format!("{} recovery shards, a fresh encoder gives {}, recovery_count is {}", got.len(), want.len(), r)); }
    if let Some(j) = (0..r).find(|&j| got[j].len() != sb) { return Err(format!("recovery shard {} has {} bytes, shard_bytes is {}", j, got[j].len(), sb)); }
    for j in 0..r { if got[j] != want[j] { let t = (0..got[j].len().min(want[j].len())).find(|&t| got[j][t] != want[j][t]);
        return Err(format!("recovery shard {} differs from a fresh encoder's (lengths {} / {}, first differing byte {:?})", j, got[j].len(), want[j].len(), t)); } }
    // the result has been dropped: the round is over, nothing is held any more (C12 "dropping the result forgets the added shards")
    if o.again && rng.below(2) == 0 {
        expect_err!(log, "encode right after the result was dropped", obj.encode().err(), Error::TooFewOriginalShards { original_count: k, original_received_count: 0 });
    }
    Ok(true)
}

fn check_dec(out: &DecOut, data: &[Vec<u8>], missing: &[usize], what: &str) -> Result<(), String> {
    let idx: Vec<usize> = out.iter.iter().map(|x| x.0).collect();
    if idx != missing { return Err(format!("{}: restored indexes {:?}, expected {:?}", what, idx, missing)); }
    if !out.fused { return Err(format!("{}: restored_original_iter() yields Some again after its end", what)); }
    for (i, s) in &out.iter { if *s != data[*i] { return Err(format!("{}: restored original {} has wrong bytes (length {}, expected {})", what, i, s.len(), data[*i].len())); } }
    for (i, s) in &out.probe { let want = if missing.contains(i) { Some(&data[*i]) } else { None };
        if s.as_ref() != want { return Err(format!("{}: restored_original({}) is {}, expected {}", what, i, if s.is_some() { "Some(..)" } else { "None" }, if want.is_some() { "Some(original)" } else { "None" })); } }
    Ok(())
}

/// one decoder round on the reused object; Ok(false): abandoned without decode
fn dec_round(rng: &mut Rng, log: &mut Vec<String>, obj: &mut Dec, kind: Kind, cfg: Cfg, o: HOpts) -> Result<bool, String> {
    let (k, r, sb) = cfg;
    let data = rand_data_z(rng, k, sb);
    let rec = enc_with(kind_codec(kind), NoSimd::new(), k, r, &data).map_err(|e| format!("reference encode {:?}", e))?;
    // a random sufficient subset in random order, the top indexes likely among it
    let lo = k.saturating_sub(r); let sparse = rng.below(6) == 0;    // sparse: one or two originals missing, every other shard (all recovery too) given
    let go = if sparse { k - (1 + rng.below(2)).min(k - lo) } else { match rng.below(6) { 0 => k, 1 => lo, _ => lo + rng.below(k - lo + 1) } };
    let go = if o.top { go.max(1) } else { go };
    let need = k - go; let gr = if sparse { r } else if rng.below(2) == 0 { need } else { need + rng.below(r - need + 1) }; let gr = if o.top { gr.max(1) } else { gr };
    let mut oi: Vec<usize> = (0..k).collect(); shuffle(rng, &mut oi); let mut ri: Vec<usize> = (0..r).collect(); shuffle(rng, &mut ri);
    if o.top || rng.below(2) == 0 { let p = oi.iter().position(|&i| i == k - 1).unwrap(); oi.swap(0, p); }
    if o.top || rng.below(2) == 0 { let p = ri.iter().position(|&j| j == r - 1).unwrap(); ri.swap(0, p); }
    let mut items: Vec<(bool, usize)> = oi[..go].iter().map(|&i| (false, i)).chain(ri[..gr].iter().map(|&j| (true, j))).collect(); shuffle(rng, &mut items);
    let missing: Vec<usize> = (0..k).filter(|i| !oi[..go].contains(i)).collect();
    let shard = |it: (bool, usize)| if it.0 { &rec[it.1] } else { &data[it.1] };
    let show = |it: (bool, usize)| format!("{}{}", if it.0 { "r" } else { "o" }, it.1);
    let big = [k, k + 1, k + 7, k.next_power_of_two(), r.next_power_of_two() + k, usize::MAX, usize::MAX - 1, usize::MAX - k, usize::MAX - r.next_power_of_two() + 1, usize::MAX / 2 + 1];
    let probes: Vec<usize> = (0..k).chain(big.iter().copied().filter(|&i| i >= k)).collect();
    let abandon = if o.abandon && rng.below(8) == 0 { Some(rng.below(items.len() + 1)) } else { None };
    let mut inj = 0;
    for p in 0..=items.len() {
        if abandon == Some(p) { log.push(format!("add[{}] abandon", items[..p].iter().map(|&x| show(x)).collect::<Vec<_>>().join(","))); return Ok(false); }
        // calls that must fail and must change nothing (each is followed by at least the next add / the decode)
        while (o.inject > 0 && rng.below(o.inject) == 0) || (o.force && p == items.len() && inj == 0) { let before = log.len(); match rng.below(5) {
            0 => { // wrong length on an index that has not been added (often one whose correct add follows later)
                let (rc, i) = if p < items.len() && rng.below(2) == 0 { items[p + rng.below(items.len() - p)] } else { let rc = rng.below(2) == 0; (rc, rng.below(if rc { r } else { k })) };
                if !items[..p].contains(&(rc, i)) { let l = wrong_len(rng, sb);
                    expect_err!(log, format!("add {}(len {})", show((rc, i)), l), obj.add(rc, i, &rng.bytes(l)).err(), Error::DifferentShardSize { shard_bytes: sb, got: l }); } }
            1 if p > 0 => { let it = items[rng.below(p)]; let l = if rng.below(3) == 0 { wrong_len(rng, sb) } else { sb }; let s = if rng.below(2) == 0 && l == sb { shard(it).clone() } else { rng.bytes(l) };
                expect_err!(log, format!("add {} again", show(it)), obj.add(it.0, it.1, &s).err(), if it.0 { Error::DuplicateRecoveryShardIndex { index: it.1 } } else { Error::DuplicateOriginalShardIndex { index: it.1 } }); }
            2 => { let rc = rng.below(2) == 0; let n = if rc { r } else { k };
                let i = [n, n + 1, n + rng.below(8), n.next_power_of_two(), k + r, usize::MAX, usize::MAX - 1, usize::MAX - n, usize::MAX - rng.below(70), usize::MAX / 2 + 1][rng.below(10)];
                if i >= n { let l = if rng.below(4) == 0 { wrong_len(rng, sb) } else { sb };
                    expect_err!(log, format!("add {}", show((rc, i))), obj.add(rc, i, &rng.bytes(l)).err(), if rc { Error::InvalidRecoveryShardIndex { recovery_count: r, index: i } } else { Error::InvalidOriginalShardIndex { original_count: k, index: i } }); } }
            3 if p < k => { let oc = items[..p].iter().filter(|x| !x.0).count();
                expect_err!(log, format!("decode@{}", p), obj.decode(&probes).err(), Error::NotEnoughShards { original_count: k, original_received_count: oc, recovery_received_count: p - oc }); }
            _ => { let (c2, want) = bad_reset(rng, cfg); expect_err!(log, format!("reset{:?}@{}", c2, p), obj.reset(c2).err(), want); }
        } if log.len() > before { inj += 1; } }
        if p < items.len() { let it = items[p]; obj.add(it.0, it.1, shard(it)).map_err(|e| format!("add {} (after {:?}) returned {:?}", show(it), items[..p].iter().map(|&x| show(x)).collect::<Vec<_>>(), e))?; }
    }
    log.push(format!("add[{}] decode", items.iter().map(|&x| show(x)).collect::<Vec<_>>().join(",")));
    let got = obj.decode(&probes).map_err(|e| format!("decode returned {:?}", e))?;
    check_dec(&got, &data, &missing, "decode")?;
    let mut fresh = Dec::new(kind, cfg, None).map_err(|e| format!("fresh decoder {:?}", e))?;
    // the fresh decoder gets the same shard set in another arrival order (C11): descending / ascending indexes, recovery first or last
    let mut other = items.clone();
    match rng.below(4) { 0 => other.sort(), 1 => { other.sort(); other.reverse(); } 2 => other.sort_by(|a, b| (b.0, b.1).cmp(&(a.0, a.1)).reverse().then(std::cmp::Ordering::Equal)), _ => other.sort_by(|a, b| (a.0, std::cmp::Reverse(a.1)).cmp(&(b.0, std::cmp::Reverse(b.1)))) }
    for &it in &other { fresh.add(it.0, it.1, shard(it)).map_err(|e| format!("fresh decoder add {:?}", e))?; }
    let want = fresh.decode(&probes).map_err(|e| format!("fresh decoder decode {:?}", e))?;
    if got != want { return Err(format!("result differs from that of a fresh decoder given the same shards in the order [{}]", other.iter().map(|&x| show(x)).collect::<Vec<_>>().join(","))); }
    if !o.again { return Ok(true); }
    // the result has been dropped: the round is over, nothing is held any more
    if rng.below(2) == 0 {
        expect_err!(log, "decode right after the result was dropped", obj.decode(&probes).err(), Error::NotEnoughShards { original_count: k, original_received_count: 0, recovery_received_count: 0 });
    }
    // ... and the same shards are accepted again and give the same result
    shuffle(rng, &mut items);
    log.push("again".into());
    for (p, &it) in items.iter().enumerate() { obj.add(it.0, it.1, shard(it)).map_err(|e| format!("second add of {} after the result was dropped (after {:?}) returned {:?}", show(it), items[..p].iter().map(|&x| show(x)).collect::<Vec<_>>(), e))?; }
    let got = obj.decode(&probes).map_err(|e| format!("second decode returned {:?}", e))?;
    check_dec(&got, &data, &missing, "second decode")?;
    Ok(true)
}

/// all: everything mixed; the other modes isolate one property each, so that a failure is attributable
/// failed: ONE round on a fresh object with failing calls in between        -> a failed call changes nothing
/// drop:   2..5 rounds, same configuration, separated only by the dropped result -> the implicit reset is complete, accessors
/// sizes:  rounds that change only shard_bytes by an explicit reset          -> nothing of the old shard size survives
#[derive(Clone, Copy, PartialEq, Debug)]
enum HMode { All, Failed, Drop, Sizes }
const GAPCOUNTS: [(usize, usize); 5] = [(3, 5), (5, 3), (5, 7), (6, 3), (3, 6)];

/// the configuration switch between two rounds (mode all): explicit reset, nothing (the dropped result has reset the object), or a move of the work space into another codec type
macro_rules! history_of { ($T:ident, $round:ident, $rng:expr, $kind0:expr, $mode:expr, $log:expr, $rounds:expr) => {{
    let (rng, log, mode): (&mut Rng, &mut Vec<String>, HMode) = ($rng, $log, $mode);
    let mut kind: Kind = $kind0;
    let mut cfg = pick_cfg(rng, None, kind);
    if mode == HMode::Drop && rng.below(4) > 0 { let (k, r) = GAPCOUNTS[rng.below(GAPCOUNTS.len())]; if codec_ok(kind_codec(kind), k, r) { cfg = (k, r, cfg.2); } }
    log.push(format!("new{:?}", cfg));
    let mut obj = $T::new(kind, cfg, None).map_err(|e| format!("new returned {:?}", e))?;
    let mut clean = true;
    let nrounds = match mode { HMode::All | HMode::Sizes => 2 + rng.below(5), HMode::Failed => 1, HMode::Drop => 2 + rng.below(4) };
    for round in 0..nrounds {
        if round > 0 { match mode {
            HMode::All => {
                if kind != Kind::Rs && rng.below(5) == 0 {
                    let nk = [Kind::Def, Kind::High, Kind::Low][rng.below(3)]; let ncfg = pick_cfg(rng, Some(cfg), nk);
                    log.push(format!("into_parts->{:?}::new{:?}", nk, ncfg));
                    obj = $T::new(nk, ncfg, Some(obj.into_work())).map_err(|e| format!("new with the old work space returned {:?}", e))?; kind = nk; cfg = ncfg;
                } else {
                    let ncfg = if rng.below(4) == 0 { cfg } else { pick_cfg(rng, Some(cfg), kind) };
                    if ncfg != cfg || !clean || rng.below(3) == 0 { log.push(format!("reset{:?}", ncfg)); obj.reset(ncfg).map_err(|e| format!("reset returned {:?}", e))?; cfg = ncfg; } else { log.push("keep".into()); }
                }
            }
            HMode::Sizes => { // another shard size, mostly with the same number of 64-byte blocks
                let same: Vec<usize> = HSIZES.iter().copied().filter(|s| s.div_ceil(64) == cfg.2.div_ceil(64) && *s != cfg.2).collect();
                let other: Vec<usize> = HSIZES.iter().copied().filter(|s| *s != cfg.2).collect();
                cfg.2 = if !same.is_empty() && rng.below(4) > 0 { same[rng.below(same.len())] } else { other[rng.below(other.len())] };
                log.push(format!("reset{:?}", cfg)); obj.reset(cfg).map_err(|e| format!("reset returned {:?}", e))?;
            }
            _ => log.push("keep".into()),
        } }
        let o = match mode {
            HMode::All => HOpts { inject: 6, force: false, abandon: true, again: true, top: false },
            HMode::Failed => HOpts { inject: 3, force: true, abandon: false, again: false, top: false },
            HMode::Drop => HOpts { inject: 0, force: false, abandon: false, again: true, top: round == 0 },
            HMode::Sizes => HOpts { inject: 0, force: false, abandon: false, again: false, top: false },
        };
        clean = $round(rng, log, &mut obj, kind, cfg, o)?;
        *$rounds += 1;
    }
    Ok(())
}} }
fn history(rng: &mut Rng, kind: Kind, dec: bool, mode: HMode, log: &mut Vec<String>, rounds: &mut u64) -> Result<(), String> {
    if dec { history_of!(Dec, dec_round, rng, kind, mode, log, rounds) } else { history_of!(Enc, enc_round, rng, kind, mode, log, rounds) }
}

fn histories(n: usize, mode: &str) -> bool {
    let (mode, tag) = match mode { "failed" => (HMode::Failed, "histories-failed"), "drop" => (HMode::Drop, "histories-drop"), "sizes" => (HMode::Sizes, "histories-sizes"), _ => (HMode::All, "histories") };
    let mut master = Rng::new(seed()); let mut rounds = 0u64;
    for h in 0..n {
        let mut rng = Rng(master.next() | 1);
        let kind = [Kind::Rs, Kind::Def, Kind::High, Kind::Low][rng.below(4)]; let dec = rng.below(2) == 0;
        let layer = format!("{}{}", ["ReedSolomon", "DefaultRate", "HighRate", "LowRate"][kind as usize], if dec { "Decoder" } else { "Encoder" });
        let mut log: Vec<String> = vec![];
        let res = std::panic::catch_unwind(std::panic::AssertUnwindSafe(|| history(&mut rng, kind, dec, mode, &mut log, &mut rounds)));
        let what = match res { Ok(Ok(())) => continue, Ok(Err(m)) => m, Err(_) => "panic (message in the line above)".into() };
        println!("FAIL {} {} history #{}: {} :: {}", tag, layer, h, log.join(" "), what);
        return false;
    }
    println!("OK {} {} rounds over {} histories (bounded)", tag, rounds, n);
    true
}


// ---------------------------------------------------------------- C09: the API layers agree call by call
/// `layers <n>`: n random call sequences (resets to the same or another configuration, abandoned rounds, failing calls) executed in
/// lockstep on ReedSolomonEncoder vs DefaultRateEncoder<DefaultEngine> and ReedSolomonDecoder vs DefaultRateDecoder<DefaultEngine>:
/// every call must return the same Ok / Err value and the same bytes on both layers.
fn layers(n: usize) -> bool {
    let mut master = Rng::new(seed()); let mut calls = 0u64;
    let cfgs: [(usize, usize); 8] = [(3, 2), (2, 3), (5, 3), (3, 5), (5, 7), (1, 1), (4, 4), (9, 5)];
    for h in 0..n {
        let mut rng = Rng(master.next() | 1);
        let (mut k, mut r) = cfgs[rng.below(cfgs.len())]; let mut sb = [2usize, 64, 66, 100, 128][rng.below(5)];
        let mut log = format!("new({}, {}, {})", k, r, sb);
        // the selection rule as the property states it (not the crate's own function): which dedicated codec the default one must equal
        let rule = |k: usize, r: usize| { let (pk, pr) = (k.next_power_of_two(), r.next_power_of_two()); if pk > pr || (pk == pr && k <= r) { Codec::High } else { Codec::Low } };
        macro_rules! bad { ($what:expr) => {{ println!("FAIL layers history #{}: {} :: {}", h, log, $what); return false; }} }
        if rng.below(2) == 0 {
            let (Ok(mut a), Ok(mut b)) = (ReedSolomonEncoder::new(k, r, sb), DefaultRateEncoder::<DefaultEngine>::new(k, r, sb, DefaultEngine::new(), None)) else { bad!("new failed") };
            let mut dirty = false;      // shards of an unfinished round are still in the objects: no fresh-codec comparison then
            for _round in 0..(2 + rng.below(3)) {
                let data = rand_data_z(&mut rng, k, sb);
                let take = if rng.below(4) == 0 { rng.below(k + 1) } else { k };
                for d in data.iter().take(take) {
                    if rng.below(8) == 0 { let w = rng.bytes(sb + 2); let (x, y) = (a.add_original_shard(&w), b.add_original_shard(&w)); log += " !add"; calls += 1; if x != y { bad!(format!("wrong-size add: {:?} vs {:?}", x, y)) } }
                    let (x, y) = (a.add_original_shard(d), b.add_original_shard(d)); calls += 1; if x != y { bad!(format!("add: {:?} vs {:?}", x, y)) }
                }
                log += &format!(" add*{}", take);
                if take == k || rng.below(2) == 0 {
                    let x = a.encode().map(|res| res.recovery_iter().map(|s| s.to_vec()).collect::<Vec<_>>());
                    let y = b.encode().map(|res| res.recovery_iter().map(|s| s.to_vec()).collect::<Vec<_>>());
                    log += " encode"; calls += 1; if x != y { bad!(format!("encode: {:?} vs {:?}", x.as_ref().map(|v| v.len()), y.as_ref().map(|v| v.len()))) }
                    if !dirty && take == k {
                        // a fresh dedicated codec of the rate the selection rule names, portable engine
                        let want = enc_with(rule(k, r), NoSimd::new(), k, r, &data);
                        if x != want { bad!(format!("encode after this history differs from a fresh dedicated {:?} encoder", rule(k, r))) }
                    }
                    dirty = x.is_err() && (dirty || take > 0);
                } else { log += " (abandoned)"; dirty = dirty || take > 0; }
                match rng.below(4) {
                    0 => {}
                    1 => { let (x, y) = (a.reset(k, r, sb), b.reset(k, r, sb)); log += " reset(same)"; calls += 1; if x != y { bad!(format!("reset: {:?} vs {:?}", x, y)) } if x.is_ok() { dirty = false; } }
                    2 => { let bad_sb = [0usize, sb + 1][rng.below(2)]; let (x, y) = (a.reset(k, r, bad_sb), b.reset(k, r, bad_sb)); log += " !reset"; calls += 1; if x != y { bad!(format!("failing reset: {:?} vs {:?}", x, y)) } }
                    _ => { let c = cfgs[rng.below(cfgs.len())]; let nsb = [2usize, 64, 66, 100, 128][rng.below(5)]; let (x, y) = (a.reset(c.0, c.1, nsb), b.reset(c.0, c.1, nsb));
                           log += &format!(" reset({}, {}, {})", c.0, c.1, nsb); calls += 1; if x != y { bad!(format!("reset: {:?} vs {:?}", x, y)) } if x.is_ok() { k = c.0; r = c.1; sb = nsb; dirty = false; } }
                }
            }
        } else {
            let (Ok(mut a), Ok(mut b)) = (ReedSolomonDecoder::new(k, r, sb), DefaultRateDecoder::<DefaultEngine>::new(k, r, sb, DefaultEngine::new(), None)) else { bad!("new failed") };
            let mut dirty = false;
            for _round in 0..(2 + rng.below(3)) {
                let data = rand_data_z(&mut rng, k, sb);
                let rec = enc_with(Codec::Default, NoSimd::new(), k, r, &data).unwrap();
                let (mut go, mut gr): (Vec<(usize, Vec<u8>)>, Vec<(usize, Vec<u8>)>) = (vec![], vec![]);
                let mut idx: Vec<usize> = (0..k + r).collect(); shuffle(&mut rng, &mut idx);
                let take = if rng.below(4) == 0 { rng.below(k + 1) } else { k + rng.below(r + 1) };
                for &p in idx.iter().take(take) {
                    if rng.below(8) == 0 { let w = rng.bytes(sb + 2); let (x, y) = if p < k { (a.add_original_shard(p, &w), b.add_original_shard(p, &w)) } else { (a.add_recovery_shard(p - k, &w), b.add_recovery_shard(p - k, &w)) };
                        log += " !add"; calls += 1; if x != y { bad!(format!("wrong-size add: {:?} vs {:?}", x, y)) } }
                    let (x, y) = if p < k { (a.add_original_shard(p, &data[p]), b.add_original_shard(p, &data[p])) } else { (a.add_recovery_shard(p - k, &rec[p - k]), b.add_recovery_shard(p - k, &rec[p - k])) };
                    calls += 1; if x != y { bad!(format!("add {}: {:?} vs {:?}", p, x, y)) }
                    if !dirty && x.is_err() { bad!(format!("add {} on a clean decoder returned {:?}", p, x)) }
                    if p < k { go.push((p, data[p].clone())) } else { gr.push((p - k, rec[p - k].clone())) }
                }
                log += &format!(" add*{}", take);
                if rng.below(4) > 0 {
                    let x = a.decode().map(|res| res.restored_original_iter().map(|(i, s)| (i, s.to_vec())).collect::<Vec<_>>());
                    let y = b.decode().map(|res| res.restored_original_iter().map(|(i, s)| (i, s.to_vec())).collect::<Vec<_>>());
                    log += " decode"; calls += 1; if x != y { bad!(format!("decode: {:?} vs {:?}", x.as_ref().map(|v| v.len()), y.as_ref().map(|v| v.len()))) }
                    if !dirty {
                        // a fresh dedicated codec of the rate the selection rule names, portable engine, the same shards
                        let want = dec_with(rule(k, r), NoSimd::new(), k, r, sb, &go, &gr);
                        if x != want { bad!(format!("decode after this history differs from a fresh dedicated {:?} decoder", rule(k, r))) }
                    }
                    dirty = x.is_err() && (dirty || take > 0);
                } else { log += " (abandoned)"; dirty = dirty || take > 0; }
                match rng.below(4) {
                    0 => {}
                    1 => { let (x, y) = (a.reset(k, r, sb), b.reset(k, r, sb)); log += " reset(same)"; calls += 1; if x != y { bad!(format!("reset: {:?} vs {:?}", x, y)) } if x.is_ok() { dirty = false; } }
                    2 => { let bad_sb = [0usize, sb + 1][rng.below(2)]; let (x, y) = (a.reset(k, r, bad_sb), b.reset(k, r, bad_sb)); log += " !reset"; calls += 1; if x != y { bad!(format!("failing reset: {:?} vs {:?}", x, y)) } }
                    _ => { let c = cfgs[rng.below(cfgs.len())]; let nsb = [2usize, 64, 66, 100, 128][rng.below(5)]; let (x, y) = (a.reset(c.0, c.1, nsb), b.reset(c.0, c.1, nsb));
                           log += &format!(" reset({}, {}, {})", c.0, c.1, nsb); calls += 1; if x != y { bad!(format!("reset: {:?} vs {:?}", x, y)) } if x.is_ok() { k = c.0; r = c.1; sb = nsb; dirty = false; } }
                }
            }
        }
    }
    println!("OK layers {} calls compared over {} histories (bounded)", calls, n);
    true
}

fn main() {
    let a: Vec<String> = std::env::args().collect();
    let f = Field::new();
    let num = |i: usize, d: usize| a.get(i).and_then(|s| s.parse().ok()).unwrap_or(d);
    // "valid use never panics / never fails" is part of what these commands check: there a panic of the crate is their own failure (exit 1);
    // elsewhere a panic or an unexpected Err while a stand-in sets up its scenario is trouble outside its oracle (PANIC line, exit 3)
    let own = matches!(a.get(1).map(|s| s.as_str()), Some("defects" | "roundtrip" | "histories" | "oneshot" | "layers"));
    std::panic::set_hook(Box::new(move |info| { let m = info.to_string().replace('\n', " "); if own { println!("FAIL panic in the crate under test: {}", m); } else { println!("PANIC {}", m); } }));
    let res = std::panic::catch_unwind(|| match a.get(1).map(|s| s.as_str()) {
        Some("kernels") => kernels_all(a.get(2).map(|s| s.as_str()).unwrap_or("all"), num(3, 65536), &f),
        Some("tables") => if a.get(2).map(|s| s.as_str()) == Some("skew") { tables_skew(&f) } else { tables(&f) },
        Some("defects") => defects(a.get(2).map(|s| s.as_str()).unwrap_or("all")),
        Some("closedform") => { let w = a.get(2).map(|s| s.as_str()).unwrap_or("both"); let (k, r) = (num(3, 8), num(4, 8));
            (w == "low" || closedform(&f, true, k, r)) && (w == "high" || closedform(&f, false, k, r)) },
        Some("roundtrip") => roundtrip(num(3, 10)),
        Some("engines") => engines(num(2, 100), a.get(3).map(|s| s.as_str()).unwrap_or("all")),
        Some("sizes") => sizes(num(2, 130)),
        Some("boundary") => boundary(a.get(2).map(|s| s == "full").unwrap_or(false)),
        Some("oneshot") => oneshot(num(2, 300)),
        Some("linearity") => linearity(num(2, 100), &f),
        Some("layers") => layers(num(2, 300)),
        Some("histories") => histories(num(2, 300), a.get(3).map(|s| s.as_str()).unwrap_or("all")),
        Some("alloc") => alloc(num(2, 20)),
        _ => { println!("usage: vnative kernels|tables|closedform|roundtrip|engines|sizes|oneshot|linearity|histories|alloc|defects ..."); false }
    });
    std::process::exit(match res { Ok(true) => 0, Ok(false) => 1, Err(_) => if own { 1 } else { 3 } });
}
