//! vnative <command> [args]      (seed for every random choice: env VERIF_SEED)
//!   kernels all|<engine> <n>    (symbol, log_m) pairs through Engine::mul: all 65536 symbols x n values of log_m (65536 = exhaustive)
//!   engines <n>                 n random configurations: every engine vs NoSimd on encode, decode, mul, eval_poly, fft/ifft (bounded)
//!   sizes <max>                 every even shard size 2..=max: lengths, slot independence with the documented placement, round trip
//!   oneshot <n>                 n random valid and invalid sessions: one-shot encode()/decode() vs the streaming API, errors included
//!   linearity <n>               n random cases: additivity, zero, scalar multiples (independent field arithmetic)
//!   alloc <n>                   n rounds / non-growing resets under a counting allocator: no shard-proportional allocation
//!   roundtrip both <s> all      every subset with >= k members, every (k, r) with k + r <= s, high, low and default codec
//!   kernels <engine>            exhaustive: every (symbol, log_m) pair through Engine::mul of the real engine, every lane
//!   tables                      exhaustive: exp/log/skew/mul16/log_walsh against an independent recomputation
//!   closedform <rate> <kmax> <rmax>   encoder on basis vectors vs the scaled-Cauchy closed form (independent field arithmetic)
//!   roundtrip <rate> <k> <r> <seed> <subsets|all>   decode every / sampled subset(s)
//!   defects                     the three reproductions of DESIGN section 9
//! Output: lines `OK <what> <count>` or `FAIL <what> <detail>`; exit 0 / 1.
use reed_solomon_simd::engine::*;
use reed_solomon_simd::rate::*;
use reed_solomon_simd::*;

// ---------------------------------------------------------------- independent field arithmetic (two published constants only)
const POLY: u32 = 0x1002D;
const CB: [u16; 16] = [0x0001, 0xACCA, 0x3C0E, 0x163E, 0xC582, 0xED2E, 0x914C, 0x4012, 0x6C98, 0x10D8, 0x6A72, 0xB900, 0xFDB8, 0xFB34, 0xFF38, 0x991E];

struct Field { exp: Vec<u16>, log: Vec<u32>, to_poly: Vec<u16>, from_poly: Vec<u16> }
impl Field {
    fn new() -> Self {
        // polynomial-basis exp/log by repeated multiplication by x
        let mut exp = vec![0u16; 65535]; let mut log = vec![0u32; 65536];
        let mut s: u32 = 1;
        for i in 0..65535u32 { exp[i as usize] = s as u16; log[s as usize] = i; s <<= 1; if s & 0x10000 != 0 { s ^= POLY; } }
        // Cantor-basis index -> polynomial representation and back
        let mut to_poly = vec![0u16; 65536]; let mut from_poly = vec![0u16; 65536];
        for x in 0..65536usize { let mut v = 0u16; for i in 0..16 { if (x >> i) & 1 == 1 { v ^= CB[i]; } } to_poly[x] = v; from_poly[v as usize] = x as u16; }
        Field { exp, log, to_poly, from_poly }
    }
    fn pmul(&self, a: u16, b: u16) -> u16 { if a == 0 || b == 0 { 0 } else { self.exp[((self.log[a as usize] + self.log[b as usize]) % 65535) as usize] } }
    fn pinv(&self, a: u16) -> u16 { self.exp[((65535 - self.log[a as usize]) % 65535) as usize] }
    /// product of two symbols given in Cantor-index representation
    fn mul(&self, x: u16, y: u16) -> u16 { self.from_poly[self.pmul(self.to_poly[x as usize], self.to_poly[y as usize]) as usize] }
    fn inv(&self, x: u16) -> u16 { self.from_poly[self.pinv(self.to_poly[x as usize]) as usize] }
    /// x * g^m with g = the polynomial `x` (0x0002)
    fn mul_log(&self, x: u16, m: u16) -> u16 {
        if x == 0 { return 0; }
        let g = self.exp[(m as u32 % 65535) as usize];
        self.from_poly[self.pmul(self.to_poly[x as usize], g) as usize]
    }
}

fn sym(b: &[u8; 64], l: usize) -> u16 { b[l] as u16 | ((b[l + 32] as u16) << 8) }
fn put(b: &mut [u8; 64], l: usize, v: u16) { b[l] = v as u8; b[l + 32] = (v >> 8) as u8; }

fn kernels<E: Engine>(name: &str, e: &E, f: &Field) -> bool {
    // every log_m; for each, all 65536 symbols spread over the 32 lanes of 2048 blocks (so every lane sees every symbol
    // once per rotation); 2 rotations cover lane-position dependence of the 128/256-bit halves
    let mut n: u64 = 0;
    for m in 0..=65535u16 {
        for rot in [0usize, 17] {
            let mut buf = vec![[0u8; 64]; 2048];
            for s in 0..65536usize { let k = (s + rot) % 65536; put(&mut buf[k / 32], k % 32, s as u16); }
            e.mul(&mut buf, m);
            for s in 0..65536usize { let k = (s + rot) % 65536; let got = sym(&buf[k / 32], k % 32); let want = f.mul_log(s as u16, m);
                if got != want { println!("FAIL kernels {} symbol={} log_m={} lane={} got={} want={}", name, s, m, k % 32, got, want); return false; } n += 1; }
        }
    }
    println!("OK kernels {} {}", name, n);
    true
}

/// closed form of the C02 statement: recovery[j] = sum_i G[j][i] * original[i]
/// high rate: m = np2(rc), G[j][i] = s_m(m+i) / (W_m * (j ^ (m+i)));  low rate: m = np2(oc), G[j][i] = s_m(m+j) / (W_m * ((m+j) ^ i))
/// s_m(x) = prod_{v<m} (x ^ v)  (vanishing polynomial of the points 0..m-1),  W_m = prod_{v=1}^{m-1} v   -- all in Cantor-index symbols
fn s_m(f: &Field, m: usize, x: usize) -> u16 { let mut p = 1u16; let one = f.from_poly[1]; p = one; for v in 0..m { p = f.mul(p, (x ^ v) as u16); } p }
fn w_m(f: &Field, m: usize) -> u16 { let mut p = f.from_poly[1]; for v in 1..m { p = f.mul(p, v as u16); } p }

fn closedform(f: &Field, high: bool, kmax: usize, rmax: usize) -> bool {
    let mut n = 0u64;
    for k in 1..=kmax { for r in 1..=rmax {
        let m = if high { r.next_power_of_two() } else { k.next_power_of_two() };
        let ok_cfg = if high { HighRate::<NoSimd>::supports(k, r) } else { LowRate::<NoSimd>::supports(k, r) };
        if !ok_cfg { continue; }
        let w = w_m(f, m);
        // unit data sets: original i carries symbol `1` (Cantor index of the field's one) in slot i % 32 ... keep it simple: one encode per i
        for i in 0..k {
            let one = f.from_poly[1];
            let mut originals = vec![vec![0u8; 2]; k];
            originals[i][0] = one as u8; originals[i][1] = (one >> 8) as u8;
            let rec: Vec<Vec<u8>> = if high {
                let mut e = HighRateEncoder::new(k, r, 2, NoSimd::new(), None).unwrap();
                for o in &originals { e.add_original_shard(o).unwrap(); }
                let res = e.encode().unwrap(); res.recovery_iter().map(|s| s.to_vec()).collect()
            } else {
                let mut e = LowRateEncoder::new(k, r, 2, NoSimd::new(), None).unwrap();
                for o in &originals { e.add_original_shard(o).unwrap(); }
                let res = e.encode().unwrap(); res.recovery_iter().map(|s| s.to_vec()).collect()
            };
            for j in 0..r {
                let got = rec[j][0] as u16 | ((rec[j][1] as u16) << 8);
                let want = if high { f.mul(s_m(f, m, m + i), f.inv(f.mul(w, (j ^ (m + i)) as u16))) }
                           else { f.mul(s_m(f, m, m + j), f.inv(f.mul(w, ((m + j) ^ i) as u16))) };
                if got != want { println!("FAIL closedform {} k={} r={} i={} j={} got={} want={}", if high {"high"} else {"low"}, k, r, i, j, got, want); return false; }
                n += 1;
            }
        }
    } }
    println!("OK closedform {} {}", if high {"high"} else {"low"}, n);
    true
}


// ---------------------------------------------------------------- helpers
struct Rng(u64);
impl Rng {
    fn new(seed: u64) -> Self { Rng(seed.wrapping_mul(0x9E3779B97F4A7C15) ^ 0xD1B54A32D192ED03) }
    fn next(&mut self) -> u64 { self.0 ^= self.0 << 13; self.0 ^= self.0 >> 7; self.0 ^= self.0 << 17; self.0 }
    fn below(&mut self, n: usize) -> usize { (self.next() % n as u64) as usize }
    fn bytes(&mut self, n: usize) -> Vec<u8> { (0..n).map(|_| self.next() as u8).collect() }
}
fn seed() -> u64 { std::env::var("VERIF_SEED").ok().and_then(|s| s.parse().ok()).unwrap_or(0) }

#[derive(Clone, Copy, PartialEq, Debug)]
enum Codec { High, Low, Default }
fn enc_with<E: Engine>(c: Codec, e: E, k: usize, r: usize, data: &[Vec<u8>]) -> Result<Vec<Vec<u8>>, Error> {
    let sb = data[0].len();
    macro_rules! run { ($t:ty) => {{ let mut x = <$t>::new(k, r, sb, e, None)?; for d in data { x.add_original_shard(d)?; } let res = x.encode()?; Ok(res.recovery_iter().map(|s| s.to_vec()).collect()) }} }
    match c { Codec::High => run!(HighRateEncoder<E>), Codec::Low => run!(LowRateEncoder<E>), Codec::Default => run!(DefaultRateEncoder<E>) }
}
fn dec_with<E: Engine>(c: Codec, e: E, k: usize, r: usize, sb: usize, o: &[(usize, Vec<u8>)], rec: &[(usize, Vec<u8>)]) -> Result<Vec<(usize, Vec<u8>)>, Error> {
    macro_rules! run { ($t:ty) => {{ let mut x = <$t>::new(k, r, sb, e, None)?; for (i, d) in o { x.add_original_shard(*i, d)?; } for (i, d) in rec { x.add_recovery_shard(*i, d)?; }
        let res = x.decode()?; Ok(res.restored_original_iter().map(|(i, s)| (i, s.to_vec())).collect()) }} }
    match c { Codec::High => run!(HighRateDecoder<E>), Codec::Low => run!(LowRateDecoder<E>), Codec::Default => run!(DefaultRateDecoder<E>) }
}
fn codec_ok(c: Codec, k: usize, r: usize) -> bool {
    match c { Codec::High => HighRate::<NoSimd>::supports(k, r), Codec::Low => LowRate::<NoSimd>::supports(k, r), Codec::Default => DefaultRate::<NoSimd>::supports(k, r) }
}

fn kernels_all(which: &str, n: usize, f: &Field) -> bool {
    let mut ok = true;
    for name in ["naive", "nosimd", "ssse3", "avx2"] {
        if which != "all" && which != name { continue; }
        ok &= match name {
            "naive" => kernels_n(name, &Naive::new(), f, n.min(if which == "all" { 2048 } else { n })),
            "nosimd" => kernels_n(name, &NoSimd::new(), f, n),
            #[cfg(target_arch = "x86_64")]
            "ssse3" => if is_x86_feature_detected!("ssse3") { kernels_n(name, &Ssse3::new(), f, n) } else { println!("UNSUPPORTED kernels ssse3 (cpu)"); true },
            #[cfg(target_arch = "x86_64")]
            "avx2" => if is_x86_feature_detected!("avx2") { kernels_n(name, &Avx2::new(), f, n) } else { println!("UNSUPPORTED kernels avx2 (cpu)"); true },
            _ => true,
        };
    }
    ok
}
fn kernels_n<E: Engine + Sync>(name: &str, e: &E, f: &Field, n: usize) -> bool {
    // n values of log_m (all when n >= 65536, else an odd stride from the seed), all 65536 symbols each, 16 threads
    let n = n.min(65536);
    let stride = if n >= 65536 { 1 } else { (Rng::new(seed()).below(32768) * 2 + 1) as u32 };
    let ms: Vec<u16> = (0..n as u32).map(|i| (i.wrapping_mul(stride) % 65536) as u16).collect();
    let bad = std::sync::Mutex::new(None::<String>);
    std::thread::scope(|sc| {
        for chunk in ms.chunks((ms.len() + 15) / 16) {
            let bad = &bad;
            sc.spawn(move || {
                for &m in chunk {
                    for rot in [0usize, 17] {
                        let mut buf = vec![[0u8; 64]; 2048];
                        for s in 0..65536usize { let k = (s + rot) % 65536; put(&mut buf[k / 32], k % 32, s as u16); }
                        e.mul(&mut buf, m);
                        for s in 0..65536usize { let k = (s + rot) % 65536; let got = sym(&buf[k / 32], k % 32); let want = f.mul_log(s as u16, m);
                            if got != want { *bad.lock().unwrap() = Some(format!("symbol={} log_m={} lane={} got={} want={}", s, m, k % 32, got, want)); return; } }
                    }
                }
            });
        }
    });
    if let Some(b) = bad.into_inner().unwrap() { println!("FAIL kernels {} {}", name, b); return false; }
    println!("OK kernels {} {} pairs{}", name, n as u64 * 65536 * 2, if n >= 65536 { " (exhaustive)" } else { " (bounded)" });
    true
}

fn tables(f: &Field) -> bool {
    use reed_solomon_simd::engine::tables::*;
    let exp = &*EXP_LOG.exp; let log = &*EXP_LOG.log;
    // exp/log multiply correctly for every (symbol, log_m) pair
    for m in 0..65536usize { for x in (0..65536usize).step_by(1) {
        let got = if x == 0 { 0 } else { let s = log[x] as u32 + m as u32; exp[((s + (s >> 16)) & 0xffff) as usize] };
        if got != f.mul_log(x as u16, m as u16) { println!("FAIL tables exp/log x={} log_m={}", x, m); return false; } } }
    let m16 = &*MUL16;
    for m in 0..65536usize { for k in 0..4 { for n in 0..16usize {
        if m16[m][k][n] != f.mul_log((n << (4 * k)) as u16, m as u16) { println!("FAIL tables mul16 log_m={} k={} n={}", m, k, n); return false; } } } }
    let m128 = &*MUL128;
    for m in 0..65536usize { for k in 0..4 { for n in 0..16usize {
        let p = f.mul_log((n << (4 * k)) as u16, m as u16);
        let lo = (m128[m].lo[k] >> (8 * n)) as u8; let hi = (m128[m].hi[k] >> (8 * n)) as u8;
        if lo != p as u8 || hi != (p >> 8) as u8 { println!("FAIL tables mul128 log_m={} k={} n={}", m, k, n); return false; } } } }
    // LOG_WALSH = Walsh-Hadamard transform (mod 65535) of LOG with entry 0 cleared, by the defining sum on a sample of rows
    let lw = &*LOG_WALSH; let mut rng = Rng::new(seed());
    for t in 0..512 { let k = if t < 4 { [0usize, 1, 65535, 32768][t] } else { rng.below(65536) };
        let mut acc: i64 = 0;
        for j in 1..65536usize { let v = log[j] as i64; if (j & k).count_ones() % 2 == 0 { acc += v } else { acc -= v } }
        let want = acc.rem_euclid(65535); let got = lw[k] as i64 % 65535;
        if want != got { println!("FAIL tables log_walsh k={} got={} want={}", k, got, want); return false; } }
    println!("OK tables exp/log 2^32 pairs, mul16, mul128 all rows, log_walsh 512 rows");
    true
}

fn rand_data(rng: &mut Rng, k: usize, sb: usize) -> Vec<Vec<u8>> { (0..k).map(|_| rng.bytes(sb)).collect() }

fn roundtrip(s: usize) -> bool {
    let mut rng = Rng::new(seed()); let mut n = 0u64;
    for k in 1..s { for r in 1..=(s - k) { for c in [Codec::High, Codec::Low, Codec::Default] {
        if !codec_ok(c, k, r) { continue; }
        let sb = [2usize, 64, 66, 130][rng.below(4)];
        let data = rand_data(&mut rng, k, sb);
        let rec = enc_with(c, NoSimd::new(), k, r, &data).unwrap();
        for mask in 0u32..(1u32 << (k + r)) {
            if (mask.count_ones() as usize) < k { continue; }
            let o: Vec<(usize, Vec<u8>)> = (0..k).filter(|i| mask >> i & 1 == 1).map(|i| (i, data[i].clone())).collect();
            let rc: Vec<(usize, Vec<u8>)> = (0..r).filter(|j| mask >> (k + j) & 1 == 1).map(|j| (j, rec[j].clone())).collect();
            let got = match dec_with(c, NoSimd::new(), k, r, sb, &o, &rc) { Ok(g) => g, Err(e) => { println!("FAIL roundtrip {:?} k={} r={} sb={} mask={:#x} error {:?}", c, k, r, sb, mask, e); return false; } };
            let missing: Vec<usize> = (0..k).filter(|i| mask >> i & 1 == 0).collect();
            if got.iter().map(|x| x.0).collect::<Vec<_>>() != missing || got.iter().any(|(i, d)| *d != data[*i]) {
                println!("FAIL roundtrip {:?} k={} r={} sb={} mask={:#x}", c, k, r, sb, mask); return false; }
            n += 1;
        }
    } } }
    println!("OK roundtrip {} subsets (all (k,r) with k+r <= {}, every subset with >= k members; bounded)", n, s);
    true
}

fn engines(n: usize) -> bool {
    let mut rng = Rng::new(seed()); let mut cnt = 0u64;
    for _ in 0..n {
        let k = 1 + rng.below(40); let r = 1 + rng.below(40); let sb = 2 * (1 + rng.below(100));
        let c = [Codec::High, Codec::Low, Codec::Default][rng.below(3)];
        if !codec_ok(c, k, r) { continue; }
        let data = rand_data(&mut rng, k, sb);
        let base = enc_with(c, NoSimd::new(), k, r, &data).unwrap();
        let mut outs: Vec<(&str, Vec<Vec<u8>>)> = vec![("naive", enc_with(c, Naive::new(), k, r, &data).unwrap()), ("default", enc_with(c, DefaultEngine::new(), k, r, &data).unwrap())];
        #[cfg(target_arch = "x86_64")]
        { if is_x86_feature_detected!("ssse3") { outs.push(("ssse3", enc_with(c, Ssse3::new(), k, r, &data).unwrap())); }
          if is_x86_feature_detected!("avx2") { outs.push(("avx2", enc_with(c, Avx2::new(), k, r, &data).unwrap())); } }
        for (name, o) in &outs { if *o != base { println!("FAIL engines encode {} vs nosimd {:?} k={} r={} sb={}", name, c, k, r, sb); return false; } cnt += 1; }
        // decode with a random sufficient subset on every engine
        let mut idx: Vec<usize> = (0..k + r).collect(); for i in (1..idx.len()).rev() { let j = rng.below(i + 1); idx.swap(i, j); }
        let take = &idx[..k];
        let o: Vec<(usize, Vec<u8>)> = take.iter().filter(|&&i| i < k).map(|&i| (i, data[i].clone())).collect();
        let rc: Vec<(usize, Vec<u8>)> = take.iter().filter(|&&i| i >= k).map(|&i| (i - k, base[i - k].clone())).collect();
        let d0 = dec_with(c, NoSimd::new(), k, r, sb, &o, &rc).unwrap();
        if d0.iter().any(|(i, d)| *d != data[*i]) { println!("FAIL engines decode nosimd wrong {:?} k={} r={} sb={}", c, k, r, sb); return false; }
        let mut ds = vec![("naive", dec_with(c, Naive::new(), k, r, sb, &o, &rc).unwrap()), ("default", dec_with(c, DefaultEngine::new(), k, r, sb, &o, &rc).unwrap())];
        #[cfg(target_arch = "x86_64")]
        { if is_x86_feature_detected!("ssse3") { ds.push(("ssse3", dec_with(c, Ssse3::new(), k, r, sb, &o, &rc).unwrap())); }
          if is_x86_feature_detected!("avx2") { ds.push(("avx2", dec_with(c, Avx2::new(), k, r, sb, &o, &rc).unwrap())); } }
        for (name, d) in &ds { if *d != d0 { println!("FAIL engines decode {} vs nosimd {:?} k={} r={} sb={}", name, c, k, r, sb); return false; } cnt += 1; }
    }
    // primitives: eval_poly and fft/ifft (truncated_size == size, the fully specified case)
    for _ in 0..n.min(50) {
        let mut e0 = [0u16; 65536]; let t = 1 + rng.below(65536); for i in 0..t { e0[i] = (rng.next() & 1) as u16; }
        let mut a = e0; NoSimd::eval_poly(&mut a, t);
        let mut b = e0; Naive::eval_poly(&mut b, t); if a != b { println!("FAIL engines eval_poly naive t={}", t); return false; }
        let mut b = e0; DefaultEngine::eval_poly(&mut b, t); if a != b { println!("FAIL engines eval_poly default t={}", t); return false; }
        let size = 1usize << rng.below(7); let pos = size * rng.below(4); let len = 1 + rng.below(3); let cntm = pos + size; let delta = rng.below(1000);
        let init: Vec<[u8; 64]> = (0..cntm * len).map(|_| { let mut x = [0u8; 64]; for b in x.iter_mut() { *b = rng.next() as u8; } x }).collect();
        for inv in [false, true] {
            let run = |e: &dyn Engine| { let mut d = init.clone(); { let mut sh = ShardsRefMut::new(cntm, len, &mut d); if inv { e.ifft(&mut sh, pos, size, size, delta) } else { e.fft(&mut sh, pos, size, size, delta) } } d };
            let a = run(&NoSimd::new());
            if run(&Naive::new()) != a || run(&DefaultEngine::new()) != a { println!("FAIL engines {} size={} pos={} delta={}", if inv { "ifft" } else { "fft" }, size, pos, delta); return false; }
            cnt += 2;
        }
    }
    println!("OK engines {} comparisons (bounded)", cnt);
    true
}

// user-byte positions of symbol slot s of a shard of sb bytes: (low, high)
fn slot_pos(sb: usize, s: usize) -> (usize, usize) { let b = s / 32; let l = s % 32; if b < sb / 64 { (64 * b + l, 64 * b + 32 + l) } else { let t = sb % 64; (64 * b + l, 64 * b + t / 2 + l) } }

fn sizes(max: usize) -> bool {
    let mut rng = Rng::new(seed()); let mut n = 0u64;
    for sb in (2..=max).step_by(2) { for (c, k, r) in [(Codec::High, 5usize, 2usize), (Codec::Low, 2, 5), (Codec::Default, 3, 3)] {
        let data = rand_data(&mut rng, k, sb);
        let rec = enc_with(c, NoSimd::new(), k, r, &data).unwrap();
        if rec.len() != r || rec.iter().any(|x| x.len() != sb) { println!("FAIL sizes recovery length sb={} {:?}", sb, c); return false; }
        // slot independence with the documented placement: slot s of the outputs = the 2-byte code of slot s of the inputs
        for s in 0..sb / 2 {
            let (lo, hi) = slot_pos(sb, s);
            let small: Vec<Vec<u8>> = data.iter().map(|d| vec![d[lo], d[hi]]).collect();
            let rs = enc_with(c, NoSimd::new(), k, r, &small).unwrap();
            for j in 0..r { if rec[j][lo] != rs[j][0] || rec[j][hi] != rs[j][1] { println!("FAIL sizes slot sb={} {:?} slot={} recovery={}", sb, c, s, j); return false; } }
            n += 1;
        }
        // restored shards have the size and the bytes
        let o: Vec<(usize, Vec<u8>)> = (r.min(k)..k).map(|i| (i, data[i].clone())).collect();
        let rc: Vec<(usize, Vec<u8>)> = (0..r.min(k)).map(|j| (j, rec[j].clone())).collect();
        let got = dec_with(c, NoSimd::new(), k, r, sb, &o, &rc).unwrap();
        if got.iter().any(|(i, d)| d.len() != sb || *d != data[*i]) || got.len() != r.min(k) { println!("FAIL sizes restore sb={} {:?}", sb, c); return false; }
    } }
    println!("OK sizes {} slots over every even size 2..={} (bounded)", n, max);
    true
}

fn oneshot(n: usize) -> bool {
    let mut rng = Rng::new(seed()); let mut cnt = 0u64;
    for _ in 0..n {
        let k = rng.below(6); let r = rng.below(6); let sb = [2usize, 4, 64, 66, 3, 0][rng.below(6)];
        // a mostly valid session, perturbed
        let data = rand_data(&mut rng, k.max(1), if sb % 2 == 0 && sb > 0 { sb } else { 2 });
        let rec = if k >= 1 && r >= 1 { enc_with(Codec::Default, NoSimd::new(), k, r, &data).unwrap_or_default() } else { vec![] };
        let mut o: Vec<(usize, Vec<u8>)> = (0..k).filter(|_| rng.below(3) > 0).map(|i| (i, data[i].clone())).collect();
        let mut rc: Vec<(usize, Vec<u8>)> = (0..rec.len()).filter(|_| rng.below(3) > 0).map(|j| (j, rec[j].clone())).collect();
        match rng.below(8) {
            0 if !o.is_empty() => { let d = o[0].clone(); o.push(d); }                       // duplicate original
            1 if !rc.is_empty() => { let d = rc[0].clone(); rc.push(d); }                    // duplicate recovery
            2 if !o.is_empty() => { o[0].0 = [k, usize::MAX, k + 7][rng.below(3)]; }         // index out of range
            3 if !rc.is_empty() => { rc[0].0 = [r, usize::MAX][rng.below(2)]; }
            4 if !o.is_empty() => { let l = o.len() - 1; o[l].1 = rng.bytes(sb + 2); }        // different size
            5 if !rc.is_empty() => { rc[0].1 = rng.bytes(3); }                                // odd size of the first recovery
            6 => { rc.clear(); }                                                              // no recovery at all
            _ => {}
        }
        for i in (1..o.len()).rev() { let j = rng.below(i + 1); o.swap(i, j); }
        // streaming reference, exactly the documented call order
        let stream_dec = || -> Result<std::collections::HashMap<usize, Vec<u8>>, Error> {
            if !ReedSolomonDecoder::supports(k, r) { return Err(Error::UnsupportedShardCount { original_count: k, recovery_count: r }); }
            let sbx = if let Some(f) = rc.first() { f.1.len() } else if let Some(f) = o.first() { f.1.len() } else {
                return Err(Error::NotEnoughShards { original_count: k, original_received_count: 0, recovery_received_count: 0 }) };
            let mut d = ReedSolomonDecoder::new(k, r, sbx)?;
            for (i, s) in &o { d.add_original_shard(*i, s)?; }
            for (i, s) in &rc { d.add_recovery_shard(*i, s)?; }
            let res = d.decode()?; Ok(res.restored_original_iter().map(|(i, s)| (i, s.to_vec())).collect())
        };
        let want = stream_dec();
        let got = decode(k, r, o.iter().map(|(i, s)| (*i, s)), rc.iter().map(|(i, s)| (*i, s)));
        if got != want { println!("FAIL oneshot decode k={} r={} originals={:?} recovery={:?} got={:?} want={:?}", k, r, o.iter().map(|x| (x.0, x.1.len())).collect::<Vec<_>>(), rc.iter().map(|x| (x.0, x.1.len())).collect::<Vec<_>>(), got.as_ref().map(|m| m.len()), want.as_ref().map(|m| m.len())); return false; }
        cnt += 1;
        // encode
        let mut e_in: Vec<Vec<u8>> = data.iter().take(k).cloned().collect();
        match rng.below(5) { 0 => { e_in.pop(); } 1 => { e_in.push(rng.bytes(2)); } 2 if !e_in.is_empty() => { let l = e_in.len() - 1; e_in[l] = rng.bytes(sb + 2); } 3 => { e_in.clear(); } _ => {} }
        let stream_enc = || -> Result<Vec<Vec<u8>>, Error> {
            if !ReedSolomonEncoder::supports(k, r) { return Err(Error::UnsupportedShardCount { original_count: k, recovery_count: r }); }
            let Some(f) = e_in.first() else { return Err(Error::TooFewOriginalShards { original_count: k, original_received_count: 0 }) };
            let mut e = ReedSolomonEncoder::new(k, r, f.len())?;
            for s in &e_in { e.add_original_shard(s)?; }
            let res = e.encode()?; Ok(res.recovery_iter().map(|s| s.to_vec()).collect())
        };
        let want = stream_enc(); let got = encode(k, r, &e_in);
        if got != want { println!("FAIL oneshot encode k={} r={} sizes={:?} got={:?} want={:?}", k, r, e_in.iter().map(|x| x.len()).collect::<Vec<_>>(), got.as_ref().map(|m| m.len()), want.as_ref().map(|m| m.len())); return false; }
        cnt += 1;
    }
    println!("OK oneshot {} sessions (bounded)", cnt);
    true
}

fn linearity(n: usize, f: &Field) -> bool {
    let mut rng = Rng::new(seed()); let mut cnt = 0u64;
    for _ in 0..n {
        let k = 1 + rng.below(20); let r = 1 + rng.below(20); let sb = 2 * (1 + rng.below(70));
        let c = [Codec::High, Codec::Low, Codec::Default][rng.below(3)];
        if !codec_ok(c, k, r) { continue; }
        let a = rand_data(&mut rng, k, sb); let b = rand_data(&mut rng, k, sb);
        let x: Vec<Vec<u8>> = a.iter().zip(&b).map(|(p, q)| p.iter().zip(q).map(|(u, v)| u ^ v).collect()).collect();
        let (ra, rb, rx) = (enc_with(c, NoSimd::new(), k, r, &a).unwrap(), enc_with(c, NoSimd::new(), k, r, &b).unwrap(), enc_with(c, NoSimd::new(), k, r, &x).unwrap());
        for j in 0..r { for t in 0..sb { if rx[j][t] != ra[j][t] ^ rb[j][t] { println!("FAIL linearity additivity {:?} k={} r={} sb={} recovery={} byte={}", c, k, r, sb, j, t); return false; } } }
        let z = enc_with(c, NoSimd::new(), k, r, &vec![vec![0u8; sb]; k]).unwrap();
        if z.iter().any(|s| s.iter().any(|&v| v != 0)) { println!("FAIL linearity zero {:?} k={} r={} sb={}", c, k, r, sb); return false; }
        // scalar multiple: every symbol times the constant g (Cantor-index symbol), with the documented placement
        let g = (1 + rng.below(65535)) as u16;
        let scale = |d: &Vec<u8>| { let mut o = d.clone(); for s in 0..sb / 2 { let (lo, hi) = slot_pos(sb, s); let v = f.mul(d[lo] as u16 | ((d[hi] as u16) << 8), g); o[lo] = v as u8; o[hi] = (v >> 8) as u8; } o };
        let sa: Vec<Vec<u8>> = a.iter().map(scale).collect();
        let rs = enc_with(c, NoSimd::new(), k, r, &sa).unwrap();
        for j in 0..r { if rs[j] != scale(&ra[j]) { println!("FAIL linearity scalar {:?} k={} r={} sb={} g={} recovery={}", c, k, r, sb, g, j); return false; } }
        cnt += 3;
    }
    println!("OK linearity {} checks (bounded)", cnt);
    true
}

// ---------------------------------------------------------------- counting allocator (C17)
struct Counting;
static BIG: std::sync::atomic::AtomicUsize = std::sync::atomic::AtomicUsize::new(0);
static THRESH: std::sync::atomic::AtomicUsize = std::sync::atomic::AtomicUsize::new(usize::MAX);
unsafe impl std::alloc::GlobalAlloc for Counting {
    unsafe fn alloc(&self, l: std::alloc::Layout) -> *mut u8 { if l.size() >= THRESH.load(std::sync::atomic::Ordering::Relaxed) { BIG.fetch_add(1, std::sync::atomic::Ordering::Relaxed); } std::alloc::System.alloc(l) }
    unsafe fn dealloc(&self, p: *mut u8, l: std::alloc::Layout) { std::alloc::System.dealloc(p, l) }
    unsafe fn realloc(&self, p: *mut u8, l: std::alloc::Layout, n: usize) -> *mut u8 { if n >= THRESH.load(std::sync::atomic::Ordering::Relaxed) { BIG.fetch_add(1, std::sync::atomic::Ordering::Relaxed); } std::alloc::System.realloc(p, l, n) }
}
#[global_allocator]
static GLOBAL: Counting = Counting;

fn alloc(n: usize) -> bool {
    use std::sync::atomic::Ordering::Relaxed;
    let mut rng = Rng::new(seed());
    let (k, r, sb) = (20usize, 12usize, 4096usize);
    let data = rand_data(&mut rng, k, sb);
    let mut e = ReedSolomonEncoder::new(k, r, sb).unwrap();
    let mut d = ReedSolomonDecoder::new(k, r, sb).unwrap();
    for s in &data { e.add_original_shard(s).unwrap(); }
    let rec: Vec<Vec<u8>> = e.encode().unwrap().recovery_iter().map(|s| s.to_vec()).collect();
    // warm-up round: the first decode initialises the shared lookup tables (one-time, not shard-proportional)
    for i in r..k { d.add_original_shard(i, &data[i]).unwrap(); }
    for j in 0..r { d.add_recovery_shard(j, &rec[j]).unwrap(); }
    { let res = d.decode().unwrap(); let _ = res.restored_original(0).unwrap()[0]; }
    // from here on: anything of at least one shard is "shard-proportional"
    THRESH.store(sb, Relaxed); BIG.store(0, Relaxed);
    for round in 0..n {
        for s in &data { e.add_original_shard(s).unwrap(); }
        { let res = e.encode().unwrap(); let _ = res.recovery(0).unwrap()[0]; }
        for i in r..k { d.add_original_shard(i, &data[i]).unwrap(); }
        for j in 0..r { d.add_recovery_shard(j, &rec[j]).unwrap(); }
        { let res = d.decode().unwrap(); let _ = res.restored_original(0).unwrap()[0]; }
        if round % 3 == 2 {
            // non-growing resets: smaller or equal work space, either rate
            let (k2, r2, sb2) = [(k, r, sb), (r, k, sb), (4, 2, 64), (k, r, sb - 2)][rng.below(4)];
            e.reset(k2, r2, sb2).unwrap(); d.reset(k2, r2, sb2).unwrap();
            e.reset(k, r, sb).unwrap(); d.reset(k, r, sb).unwrap();
        }
        let big = BIG.load(Relaxed);
        if big != 0 { THRESH.store(usize::MAX, Relaxed); println!("FAIL alloc {} allocation(s) of >= {} bytes in round {}", big, sb, round); return false; }
    }
    THRESH.store(usize::MAX, Relaxed);
    println!("OK alloc {} rounds without an allocation of >= {} bytes (bounded)", n, sb);
    true
}

fn defects(which: &str) -> bool {
    use std::panic::catch_unwind;
    let mut ok = true;
    let sel = |d: &str| which == "all" || which == d;
    if sel("D1") {
    let r = catch_unwind(|| { let mut e = ReedSolomonEncoder::new(2, 3, 64).unwrap(); let _ = e.reset(2, 3, 63); e.add_original_shard([0u8; 64]).is_ok() });
    if !matches!(r, Ok(true)) { println!("FAIL D1 failed reset leaves the encoder unusable: new(2,3,64); reset(2,3,63) -> Err; add_original_shard panics"); ok = false; }
    }
    if sel("D2") {
    let r = catch_unwind(|| { let mut d = ReedSolomonDecoder::new(3, 2, 64).unwrap(); d.add_original_shard(usize::MAX, [0u8; 64]).is_err() });
    if !matches!(r, Ok(true)) { println!("FAIL D2 ReedSolomonDecoder::new(3,2,64).add_original_shard(usize::MAX, ..) panics (overflow) instead of InvalidOriginalShardIndex"); ok = false; }
    }
    if sel("D3") {
    let a = [1u8; 64];
    if decode(2, 1, [(0usize, &a[..]), (0usize, &a[..])], [(0usize, &a[..]); 0]).is_ok() { println!("FAIL D3 one-shot decode accepts a duplicate index"); ok = false; }
    }
    if ok { println!("OK defects {} (regression inputs of the repaired defects)", which); }
    ok
}

fn main() {
    let a: Vec<String> = std::env::args().collect();
    let f = Field::new();
    let num = |i: usize, d: usize| a.get(i).and_then(|s| s.parse().ok()).unwrap_or(d);
    // a panic inside the real crate is a finding (C06: no panics), reported like any other failure
    std::panic::set_hook(Box::new(|info| { println!("FAIL panic in the crate under test: {}", info.to_string().replace('\n', " ")); }));
    let ok = std::panic::catch_unwind(|| match a.get(1).map(|s| s.as_str()) {
        Some("kernels") => kernels_all(a.get(2).map(|s| s.as_str()).unwrap_or("all"), num(3, 65536), &f),
        Some("tables") => tables(&f),
        Some("defects") => defects(a.get(2).map(|s| s.as_str()).unwrap_or("all")),
        Some("closedform") => { let w = a.get(2).map(|s| s.as_str()).unwrap_or("both"); let (k, r) = (num(3, 8), num(4, 8));
            (w == "low" || closedform(&f, true, k, r)) && (w == "high" || closedform(&f, false, k, r)) },
        Some("roundtrip") => roundtrip(num(3, 10)),
        Some("engines") => engines(num(2, 100)),
        Some("sizes") => sizes(num(2, 130)),
        Some("oneshot") => oneshot(num(2, 300)),
        Some("linearity") => linearity(num(2, 100), &f),
        Some("alloc") => alloc(num(2, 20)),
        _ => { println!("usage: vnative kernels|tables|closedform|roundtrip|engines|sizes|oneshot|linearity|alloc|defects ..."); false }
    }).unwrap_or(false);
    std::process::exit(if ok { 0 } else { 1 });
}
