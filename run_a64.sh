#!/bin/bash
# usage: run_a64.sh [verus args...]
# The aarch64 view of the crate (extract.py --arch aarch64: R13 selects the aarch64 items, engine_neon.rs replaces
# engine_avx2.rs / engine_ssse3.rs, overlay entries of the x86_64 view are skipped). Same output as run.sh:
# tally of error kinds, then the `verification results` line. The baseline of loop shapes of this view is
# contracts/baseline_shapes_aarch64.json (picked by extract.py from --arch).
cd "$(dirname "$0")"
mkdir -p work
python3 tools/extract.py --repo ${REPO:-/repo} --contracts contracts --arch aarch64 --out work/rs_verus_a64.rs --report work/report_a64.json || exit 2
verus work/rs_verus_a64.rs --num-threads 16 --rlimit ${RLIMIT:-50} "$@" 2> work/verus_a64.err > work/verus_a64.out
grep -E "^error" work/verus_a64.err | sort | uniq -c | sort -rn | head -${TOP:-25}
grep -E "verification results" work/verus_a64.out work/verus_a64.err | tail -1
