#!/bin/bash
# usage: mutate.sh <name> <file> <python-expr-old> <new>   (scratch self-test: which properties flag a seeded change)
# applies one textual replacement on a scratch copy of the fixed repo and runs every check (Verus part only)
set -u
NAME=$1; FILE=$2; OLD=$3; NEW=$4
M=/root/probes/mut
rm -rf $M && cp -r /root/probes/repo_fixed $M && rm -rf $M/target
python3 - "$M/$FILE" "$OLD" "$NEW" <<'PY' || exit 3
import sys
f,old,new=sys.argv[1:4]
s=open(f).read()
if s.count(old)<1: print('anchor not found'); sys.exit(3)
s=s.replace(old,new,1)
open(f,'w').write(s)
PY
cd "$(dirname "$0")"
printf "%s:" "$NAME"
for p in C01 C02 C03 C04 C05 C06 C07 C08 C09 C10 C11 C12 C13 C14 C15 C17; do
  VERIF_REPO=$M ./check $p --no-standins > work/mut_$p.log 2>&1; rc=$?
  [ $rc -eq 1 ] && printf " %s" $p
  [ $rc -eq 2 ] && printf " %s?" $p
done
echo
