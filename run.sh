#!/bin/bash
# usage: run.sh [verus args...]
cd "$(dirname "$0")"
mkdir -p work
python3 tools/extract.py --repo ${REPO:-/repo} --contracts contracts --out work/rs_verus.rs --report work/report.json || exit 2
verus work/rs_verus.rs --num-threads 16 --rlimit ${RLIMIT:-50} "$@" 2> work/verus.err > work/verus.out
grep -E "^error" work/verus.err | sort | uniq -c | sort -rn | head -${TOP:-25}
grep -E "verification results" work/verus.out work/verus.err | tail -1
