#!/usr/bin/env python3
import re,sys,os
sys.path.insert(0,os.path.join(os.path.dirname(os.path.abspath(__file__)),'tools'))
import rsx
d=os.path.dirname(os.path.abspath(__file__))
err=open(d+'/work/verus.err').read()
src=open(d+'/work/rs_verus.rs').read()
body_start=src.index('verus! {')+len('verus! {')
items=rsx.parse_items(src[body_start:src.rindex('} // verus!')])
fns=[(src.count('\n',0,body_start+it.start)+1, src.count('\n',0,body_start+it.end)+1, it.path()) for it in rsx.walk(items) if it.kind=='fn']
cnt={}
for m in re.finditer(r'^(error[^\n]*)\n\s+--> work/rs_verus.rs:(\d+)',err,flags=re.M):
    ln=int(m.group(2)); f=[p for a,b,p in fns if a<=ln<=b]
    cnt.setdefault(f[-1] if f else '?',[]).append(m.group(1)[7:60])
for k in sorted(cnt): print('  FAIL', k, len(cnt[k]), sorted(set(cnt[k]))[:3])
for l in open(d+'/work/verus.out').read().split('\n')+err.split('\n'):
    if 'verification results' in l: print(l)
