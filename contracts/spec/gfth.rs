use vstd::prelude::*;
use crate::vspec::gf::*;
use vstd::set_lib::set_int_range;
// Facts about GF(2^16) = GF(2)[x]/(0x1002D) needed by the table initialisers, all derived from the
// definitions in vspec::gf (no table of the crate, no assumption):
//   * x is a primitive element: gpow is injective on 0..65535, has period 65535, hits every non-zero element
//   * gpow(a + b) == pmul(gpow(a), gpow(b))
//   * cantor / icantor are mutually inverse bijections of u16

// ---------------------------------------------------------------- iterated multiplication by x
pub open spec fn mulx_n(a: u16, n: nat) -> u16
    decreases n
{
    if n == 0 { a } else { mulx(mulx_n(a, (n - 1) as nat)) }
}
pub proof fn lemma_gpow_mulx_n(n: nat)
    ensures gpow(n) == mulx_n(1, n)
    decreases n
{
    if n > 0 { lemma_gpow_mulx_n((n - 1) as nat); }
}
pub proof fn lemma_mulx_n_add(a: u16, m: nat, n: nat)
    ensures mulx_n(mulx_n(a, m), n) == mulx_n(a, m + n)
    decreases n
{
    if n > 0 { lemma_mulx_n_add(a, m, (n - 1) as nat); }
}
pub proof fn lemma_gpow_add(m: nat, n: nat)
    ensures gpow(m + n) == mulx_n(gpow(m), n)
{
    lemma_gpow_mulx_n(m); lemma_gpow_mulx_n(m + n); lemma_mulx_n_add(1, m, n);
}
pub proof fn lemma_mulx_inj(a: u16, b: u16)
    requires mulx(a) == mulx(b)
    ensures a == b
{
    assert((if a & 0x8000 != 0 { ((a << 1) ^ 0x002D) as u16 } else { (a << 1) as u16 })
        == (if b & 0x8000 != 0 { ((b << 1) ^ 0x002D) as u16 } else { (b << 1) as u16 }) ==> a == b) by (bit_vector);
}
pub proof fn lemma_mulx_nz(a: u16)
    requires a != 0
    ensures mulx(a) != 0
{
    assert(mulx(0u16) == 0u16) by (bit_vector);
    if mulx(a) == 0 { lemma_mulx_inj(a, 0); }
}
pub proof fn lemma_mulx_n_inj(a: u16, b: u16, n: nat)
    requires mulx_n(a, n) == mulx_n(b, n)
    ensures a == b
    decreases n
{
    if n > 0 { lemma_mulx_inj(mulx_n(a, (n - 1) as nat), mulx_n(b, (n - 1) as nat)); lemma_mulx_n_inj(a, b, (n - 1) as nat); }
}
pub proof fn lemma_gpow_nz(n: nat)
    ensures gpow(n) != 0
    decreases n
{
    if n > 0 { lemma_gpow_nz((n - 1) as nat); lemma_mulx_nz(gpow((n - 1) as nat)); }
}

// balanced form of mulx_n, so that `by (compute_only)` can run 65535 steps with logarithmic recursion depth
pub open spec fn mxb(a: u16, n: nat) -> u16
    decreases n
{
    if n == 0 { a } else if n == 1 { mulx(a) } else { mxb(mxb(a, n / 2), (n - n / 2) as nat) }
}
pub proof fn lemma_mxb(a: u16, n: nat)
    ensures mxb(a, n) == mulx_n(a, n)
    decreases n
{
    if n == 1 {
        assert(mulx_n(a, 1) == mulx(mulx_n(a, 0)));
    } else if n >= 2 {
        lemma_mxb(a, n / 2);
        lemma_mxb(mxb(a, n / 2), (n - n / 2) as nat);
        lemma_mulx_n_add(a, n / 2, (n - n / 2) as nat);
    }
}

// ---------------------------------------------------------------- periods of x
pub open spec fn per(n: nat) -> bool { gpow(n) == 1 }

pub proof fn lemma_per_ground()
    ensures per(65535), !per(21845), !per(13107), !per(3855), !per(255)
{
    lemma_mxb(1, 65535); lemma_gpow_mulx_n(65535);
    lemma_mxb(1, 21845); lemma_gpow_mulx_n(21845);
    lemma_mxb(1, 13107); lemma_gpow_mulx_n(13107);
    lemma_mxb(1, 3855); lemma_gpow_mulx_n(3855);
    lemma_mxb(1, 255); lemma_gpow_mulx_n(255);
    assert(mxb(1u16, 65535) == 1u16) by (compute_only);
    assert(mxb(1u16, 21845) != 1u16) by (compute_only);
    assert(mxb(1u16, 13107) != 1u16) by (compute_only);
    assert(mxb(1u16, 3855) != 1u16) by (compute_only);
    assert(mxb(1u16, 255) != 1u16) by (compute_only);
}
// equal powers differ by a period
pub proof fn lemma_gpow_eq_per(i: nat, j: nat)
    requires i <= j, gpow(i) == gpow(j)
    ensures per((j - i) as nat)
{
    let d = (j - i) as nat;
    // gpow(j) == mulx_n(gpow(d), i), gpow(i) == mulx_n(1, i)
    lemma_gpow_add(d, i); lemma_gpow_mulx_n(i);
    lemma_mulx_n_inj(gpow(d), 1, i);
}
pub proof fn lemma_per_add(a: nat, b: nat)
    requires per(a), per(b)
    ensures per(a + b)
{
    lemma_gpow_add(a, b); lemma_gpow_mulx_n(b);
}
pub proof fn lemma_per_mul(a: nat, k: nat)
    requires per(a)
    ensures per(a * k)
    decreases k
{
    if k == 0 {
        assert(a * 0 == 0) by (nonlinear_arith);
    } else {
        lemma_per_mul(a, (k - 1) as nat);
        assert(a * k == a * ((k - 1) as nat) + a) by (nonlinear_arith) requires k >= 1;
        lemma_per_add(a * ((k - 1) as nat), a);
    }
}
pub proof fn lemma_per_sub(a: nat, b: nat)
    requires per(a), per(b), b <= a
    ensures per((a - b) as nat)
{
    lemma_gpow_eq_per(b, a);
}
// Euclid: the gcd of two periods is a period; returned with the two cofactors
pub proof fn lemma_per_gcd(a: nat, b: nat) -> (r: (nat, nat, nat))
    requires per(a), per(b), a > 0
    ensures per(r.0), r.0 > 0, a == r.0 * r.1, b == r.0 * r.2
    decreases b
{
    if b == 0 {
        assert(a == a * 1 && 0 == a * 0) by (nonlinear_arith);
        (a, 1, 0)
    } else {
        let q = a / b; let m = a % b;
        vstd::arithmetic::div_mod::lemma_fundamental_div_mod(a as int, b as int);
        lemma_per_mul(b, q);
        assert(b * q <= a) by (nonlinear_arith) requires a == b * q + m, m >= 0;
        lemma_per_sub(a, b * q);
        assert((a - b * q) as nat == m);
        let (g, kb, km) = lemma_per_gcd(b, m);
        assert(a == g * (kb * q + km)) by (nonlinear_arith) requires a == b * q + m, b == g * kb, m == g * km;
        (g, kb * q + km, kb)
    }
}

// every proper divisor of 65535 = 3*5*17*257 divides one of 65535/3, 65535/5, 65535/17, 65535/257
pub open spec fn div_ok(g: int) -> bool {
    65535int % g == 0 ==> (21845int % g == 0 || 13107int % g == 0 || 3855int % g == 0 || 255int % g == 0)
}
pub open spec fn div_chk(lo: int, hi: int) -> bool
    decreases hi - lo
{
    if hi <= lo { true } else if hi == lo + 1 { div_ok(lo) } else { let mid = lo + (hi - lo) / 2; div_chk(lo, mid) && div_chk(mid, hi) }
}
pub proof fn lemma_div_chk(lo: int, hi: int, g: int)
    requires div_chk(lo, hi), lo <= g < hi
    ensures div_ok(g)
    decreases hi - lo
{
    if hi > lo + 1 {
        let mid = lo + (hi - lo) / 2;
        if g < mid { lemma_div_chk(lo, mid, g); } else { lemma_div_chk(mid, hi, g); }
    }
}
pub proof fn lemma_no_small_period(d: nat)
    requires 0 < d < 65535
    ensures !per(d)
{
    if per(d) {
        lemma_per_ground();
        let (g, kd, kn) = lemma_per_gcd(d, 65535);
        // g <= d < 65535 and g divides 65535
        assert(g <= d) by (nonlinear_arith) requires d == g * kd, d > 0, g > 0;
        assert(65535int % (g as int) == 0) by {
            assert(g * kn == kn * g) by (nonlinear_arith);
            vstd::arithmetic::div_mod::lemma_fundamental_div_mod_converse(65535, g as int, kn as int, 0);
        }
        assert(div_chk(1, 65535)) by (compute_only);
        lemma_div_chk(1, 65535, g as int);
        let t: nat = if 21845int % (g as int) == 0 { 21845 } else if 13107int % (g as int) == 0 { 13107 } else if 3855int % (g as int) == 0 { 3855 } else { 255 };
        assert(t % g == 0);
        vstd::arithmetic::div_mod::lemma_fundamental_div_mod(t as int, g as int);
        let k = (t / g) as nat;
        assert(t == g * k);
        lemma_per_mul(g, k);
        assert(per(t));
        assert(false);
    }
}
pub proof fn lemma_gpow_inj(i: nat, j: nat)
    requires i < 65535, j < 65535, gpow(i) == gpow(j)
    ensures i == j
{
    if i < j { lemma_gpow_eq_per(i, j); lemma_no_small_period((j - i) as nat); }
    if j < i { lemma_gpow_eq_per(j, i); lemma_no_small_period((i - j) as nat); }
}
pub proof fn lemma_gpow_periodic(n: nat, k: nat)
    ensures gpow(n + 65535 * k) == gpow(n)
{
    lemma_per_ground(); lemma_per_mul(65535, k);
    lemma_gpow_add(65535 * k, n); lemma_gpow_mulx_n(n);
    assert(n + 65535 * k == 65535 * k + n);
}
pub proof fn lemma_gpow_mod(n: nat)
    ensures gpow(n) == gpow(n % 65535)
{
    vstd::arithmetic::div_mod::lemma_fundamental_div_mod(n as int, 65535);
    lemma_gpow_periodic(n % 65535, n / 65535);
}

// ---------------------------------------------------------------- x generates every non-zero element (pigeonhole)
pub open spec fn hits(n: nat) -> Set<int>
    decreases n
{
    if n == 0 { Set::<int>::empty() } else { hits((n - 1) as nat).insert(gpow((n - 1) as nat) as int) }
}
pub proof fn lemma_hits(n: nat)
    requires n <= 65535
    ensures hits(n).len() == n, hits(n).subset_of(set_int_range(1, 65536)),
        forall|c: int| hits(n).contains(c) <==> (exists|j: nat| j < n && gpow(j) as int == c),
    decreases n
{
    if n > 0 {
        let m = (n - 1) as nat;
        lemma_hits(m);
        lemma_gpow_nz(m);
        let c0 = gpow(m) as int;
        if hits(m).contains(c0) {
            let j = choose|j: nat| j < m && gpow(j) as int == c0;
            lemma_gpow_inj(j, m);
        }
        assert forall|c: int| hits(n).contains(c) <==> (exists|j: nat| j < n && gpow(j) as int == c) by {
            if hits(n).contains(c) {
                if c == c0 { assert(m < n && gpow(m) as int == c); }
                else { let j = choose|j: nat| j < m && gpow(j) as int == c; assert(j < n && gpow(j) as int == c); }
            }
            if exists|j: nat| j < n && gpow(j) as int == c {
                let j = choose|j: nat| j < n && gpow(j) as int == c;
                if j < m { assert(hits(m).contains(c)); }
            }
        }
    }
}
pub proof fn lemma_gpow_surj(c: u16) -> (j: nat)
    requires c != 0
    ensures j < 65535, gpow(j) == c
{
    lemma_hits(65535);
    vstd::set_lib::lemma_int_range(1, 65536);
    vstd::set_lib::lemma_subset_equality(hits(65535), set_int_range(1, 65536));
    assert(set_int_range(1, 65536).contains(c as int));
    assert(hits(65535).contains(c as int));
    choose|j: nat| j < 65535 && gpow(j) as int == c as int
}
// discrete logarithm base x of a non-zero element
pub open spec fn dlog(c: u16) -> nat { choose|j: nat| j < 65535 && gpow(j) == c }
pub proof fn lemma_dlog(c: u16)
    requires c != 0
    ensures dlog(c) < 65535, gpow(dlog(c)) == c
{
    let j = lemma_gpow_surj(c);
}
pub proof fn lemma_dlog_gpow(j: nat)
    requires j < 65535
    ensures dlog(gpow(j)) == j
{
    lemma_gpow_nz(j); lemma_dlog(gpow(j)); lemma_gpow_inj(dlog(gpow(j)), j);
}

// ---------------------------------------------------------------- multiplication by a power of x
pub proof fn lemma_pm_mulx(a: u16, b: u16, n: int)
    ensures pm(mulx(a), b, n) == mulx(pm(a, b, n))
    decreases n
{
    if n > 0 {
        lemma_pm_mulx(mulx(a), b >> 1, n - 1);
        let t = pm(mulx(a), b >> 1, n - 1);
        lemma_mulx_xor(a, t); lemma_mulx_xor(0, t);
        assert(mulx(0u16) == 0u16) by (bit_vector);
    } else {
        assert(mulx(0u16) == 0u16) by (bit_vector);
    }
}
// pm(1 << k, b, 16 - k) == b << k when b has at most 16 - k bits (no reduction happens)
pub proof fn lemma_pm_shift(b: u16, k: int)
    requires 0 <= k <= 15, (b as u32) < (1u32 << ((16 - k) as u32))
    ensures pm((1u16 << (k as u16)) as u16, b, 16 - k) == (b << (k as u16)) as u16
    decreases 16 - k
{
    let kk = k as u16;
    if k < 15 {
        assert(mulx((1u16 << kk) as u16) == (1u16 << ((kk + 1) as u16)) as u16) by (bit_vector) requires kk < 15;
        assert(((b >> 1) as u32) < (1u32 << ((16 - (kk + 1)) as u32))) by (bit_vector) requires kk < 15, (b as u32) < (1u32 << ((16 - kk) as u32));
        lemma_pm_shift(b >> 1, k + 1);
        assert((if b & 1 == 1 { (1u16 << kk) as u16 } else { 0u16 }) ^ (((b >> 1) << ((kk + 1) as u16)) as u16) == (b << kk) as u16) by (bit_vector)
            requires kk < 15, (b as u32) < (1u32 << ((16 - kk) as u32));
    } else {
        assert(pm(mulx((1u16 << kk) as u16), b >> 1, 0) == 0);
        assert((if b & 1 == 1 { (1u16 << 15u16) as u16 } else { 0u16 }) ^ 0u16 == (b << 15u16) as u16) by (bit_vector) requires (b as u32) < (1u32 << 1u32);
    }
}
// pmul(1, b) == b
pub proof fn lemma_pmul_one(b: u16)
    ensures pmul(1, b) == b
{
    assert((1u16 << 0u16) == 1u16 && (b << 0u16) == b && (b as u32) < (1u32 << 16u32)) by (bit_vector);
    lemma_pm_shift(b, 0);
}
pub proof fn lemma_pmul_mulx_n(a: u16, b: u16, n: nat)
    ensures pmul(mulx_n(a, n), b) == mulx_n(pmul(a, b), n)
    decreases n
{
    if n > 0 { lemma_pmul_mulx_n(a, b, (n - 1) as nat); lemma_pm_mulx(mulx_n(a, (n - 1) as nat), b, 16); }
}
// g^a * g^b == g^(a+b)
pub proof fn lemma_gpow_pmul(a: nat, b: nat)
    ensures pmul(gpow(a), gpow(b)) == gpow(a + b)
{
    lemma_gpow_mulx_n(a);
    lemma_pmul_mulx_n(1, gpow(b), a);
    lemma_pmul_one(gpow(b));
    lemma_gpow_add(b, a);
    assert(a + b == b + a);
}

// ---------------------------------------------------------------- cantor and icantor are mutually inverse
pub proof fn lemma_lin_unit(j: int, i: int, col: spec_fn(int) -> u16)
    requires 0 <= j < 16, 0 <= i <= 16
    ensures lin((1u16 << (j as u16)) as u16, i, col) == if i <= j { col(j) } else { 0u16 }
    decreases 16 - i
{
    if i < 16 {
        lemma_lin_unit(j, i + 1, col);
        let jj = j as u16; let ii = i as u16;
        assert((((1u16 << jj) >> ii) & 1 == 1) == (ii == jj)) by (bit_vector) requires jj < 16, ii < 16;
        let c = col(j);
        assert(c ^ 0u16 == c && 0u16 ^ c == c && 0u16 ^ 0u16 == 0u16) by (bit_vector);
    }
}
pub proof fn lemma_cantor_units()
    ensures forall|j: int| 0 <= j < 16 ==> #[trigger] cantor((1u16 << (j as u16)) as u16) == cb(j),
        forall|j: int| 0 <= j < 16 ==> #[trigger] icantor((1u16 << (j as u16)) as u16) == icb(j),
{
    assert forall|j: int| 0 <= j < 16 implies #[trigger] cantor((1u16 << (j as u16)) as u16) == cb(j) by { lemma_lin_unit(j, 0, |i: int| cb(i)); }
    assert forall|j: int| 0 <= j < 16 implies #[trigger] icantor((1u16 << (j as u16)) as u16) == icb(j) by { lemma_lin_unit(j, 0, |i: int| icb(i)); }
}
// a linear map is determined by its columns: lin(x, i, col) folded through a second linear map
pub proof fn lemma_lin_compose(x: u16, i: int, col: spec_fn(int) -> u16, col2: spec_fn(int) -> u16)
    requires 0 <= i <= 16, forall|k: int| 0 <= k < 16 ==> lin(#[trigger] col(k), 0, col2) == (1u16 << (k as u16))
    ensures lin(lin(x, i, col), 0, col2) == x & ((0xffffu16 << (i as u16)) as u16) || i == 16
    decreases 16 - i
{
    if i < 16 {
        lemma_lin_compose(x, i + 1, col, col2);
        let r = lin(x, i + 1, col);
        let c = if bit(x, i) { col(i) } else { 0u16 };
        lemma_lin_xor(c, r, 0, col2);
        lemma_lin_zero(0, col2);
        let ii = i as u16;
        if i == 15 {
            lemma_lin_zero(0, col2);
            assert(lin(x, 16, col) == 0);
            assert((if (x >> 15u16) & 1 == 1 { (1u16 << 15u16) } else { 0u16 }) ^ 0u16 == x & ((0xffffu16 << 15u16) as u16)) by (bit_vector);
        } else {
            assert((if (x >> ii) & 1 == 1 { (1u16 << ii) } else { 0u16 }) ^ (x & ((0xffffu16 << ((ii + 1) as u16)) as u16)) == x & ((0xffffu16 << ii) as u16)) by (bit_vector)
                requires ii < 15;
        }
    }
}
pub proof fn lemma_icb_units2()
    ensures forall|i: int| 0 <= i < 16 ==> #[trigger] icantor(cb(i)) == (1u16 << (i as u16))
{
    assert(icantor(cb(0)) == 1u16 << 0u16) by (compute_only);
    assert(icantor(cb(1)) == 1u16 << 1u16) by (compute_only);
    assert(icantor(cb(2)) == 1u16 << 2u16) by (compute_only);
    assert(icantor(cb(3)) == 1u16 << 3u16) by (compute_only);
    assert(icantor(cb(4)) == 1u16 << 4u16) by (compute_only);
    assert(icantor(cb(5)) == 1u16 << 5u16) by (compute_only);
    assert(icantor(cb(6)) == 1u16 << 6u16) by (compute_only);
    assert(icantor(cb(7)) == 1u16 << 7u16) by (compute_only);
    assert(icantor(cb(8)) == 1u16 << 8u16) by (compute_only);
    assert(icantor(cb(9)) == 1u16 << 9u16) by (compute_only);
    assert(icantor(cb(10)) == 1u16 << 10u16) by (compute_only);
    assert(icantor(cb(11)) == 1u16 << 11u16) by (compute_only);
    assert(icantor(cb(12)) == 1u16 << 12u16) by (compute_only);
    assert(icantor(cb(13)) == 1u16 << 13u16) by (compute_only);
    assert(icantor(cb(14)) == 1u16 << 14u16) by (compute_only);
    assert(icantor(cb(15)) == 1u16 << 15u16) by (compute_only);
}
pub proof fn lemma_cantor_inverse(x: u16)
    ensures icantor(cantor(x)) == x, cantor(icantor(x)) == x
{
    lemma_icb_units(); lemma_icb_units2();
    let c1 = |i: int| cb(i); let c2 = |j: int| icb(j);
    assert forall|k: int| 0 <= k < 16 implies lin(#[trigger] c1(k), 0, c2) == (1u16 << (k as u16)) by { assert(icantor(cb(k)) == 1u16 << (k as u16)); }
    lemma_lin_compose(x, 0, c1, c2);
    assert forall|k: int| 0 <= k < 16 implies lin(#[trigger] c2(k), 0, c1) == (1u16 << (k as u16)) by { assert(cantor(icb(k)) == 1u16 << (k as u16)); }
    lemma_lin_compose(x, 0, c2, c1);
    assert(x & ((0xffffu16 << 0u16) as u16) == x) by (bit_vector);
}
pub proof fn lemma_cantor_nz(x: u16)
    requires x != 0
    ensures cantor(x) != 0
{
    lemma_cantor_inverse(x); lemma_cantor_inverse(0);
    lemma_lin_zero(0, |i: int| cb(i)); lemma_lin_zero(0, |j: int| icb(j));
}
