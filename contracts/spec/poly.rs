use vstd::prelude::*;
use crate::vspec::field::*;
// Polynomial algebra over GF(2^16) (symbols, product `fmul`, sum `^`).
// A polynomial is its coefficient sequence in the MONOMIAL basis (index = exponent); any length, trailing zeros allowed.
// Everything is phrased through `coef(p, i)` (0 outside the sequence), so results do not depend on the stored length:
//   peq(p, q)      equality as polynomials (all coefficients agree)
//   deg_lt(p, n)   degree < n  (all coefficients at index >= n vanish)
// Main results: evaluation is a ring homomorphism; factor theorem (synthetic division by x ^ a); root bound and
// uniqueness of interpolation; formal derivative in characteristic 2 with the product rule.  Nothing is assumed.

// ---------------------------------------------------------------- definitions
pub open spec fn coef(p: Seq<u16>, i: int) -> u16 { if 0 <= i < p.len() { p[i] } else { 0u16 } }
pub open spec fn peq(p: Seq<u16>, q: Seq<u16>) -> bool {
    forall|i: int| #![trigger coef(p, i)] #![trigger coef(q, i)] coef(p, i) == coef(q, i)
}
pub open spec fn deg_lt(p: Seq<u16>, n: int) -> bool { forall|i: int| n <= i ==> #[trigger] coef(p, i) == 0 }
pub open spec fn is_zero_poly(p: Seq<u16>) -> bool { forall|i: int| #[trigger] coef(p, i) == 0 }

pub open spec fn ptail(p: Seq<u16>) -> Seq<u16> { if p.len() == 0 { p } else { p.drop_first() } }
pub open spec fn pcons(c: u16, p: Seq<u16>) -> Seq<u16> { seq![c] + p }
// Horner from the constant term: p(x) = p[0] + x * (p[1] + x * (...))
pub open spec fn peval(p: Seq<u16>, x: u16) -> u16
    decreases p.len()
{
    if p.len() == 0 { 0u16 } else { p[0] ^ fmul(x, peval(p.drop_first(), x)) }
}
pub open spec fn pzero() -> Seq<u16> { Seq::<u16>::empty() }
pub open spec fn pconst(c: u16) -> Seq<u16> { seq![c] }
// the linear polynomial x ^ a  (= x - a)
pub open spec fn plin(a: u16) -> Seq<u16> { seq![a, one()] }
pub open spec fn padd(p: Seq<u16>, q: Seq<u16>) -> Seq<u16> {
    Seq::new(if p.len() >= q.len() { p.len() } else { q.len() }, |i: int| coef(p, i) ^ coef(q, i))
}
pub open spec fn pscale(c: u16, p: Seq<u16>) -> Seq<u16> { Seq::new(p.len(), |i: int| fmul(c, p[i])) }
pub open spec fn pmulx(p: Seq<u16>) -> Seq<u16> { pcons(0u16, p) }
// p * q = p[0] * q + x * (tail(p) * q)
pub open spec fn pmulp(p: Seq<u16>, q: Seq<u16>) -> Seq<u16>
    decreases p.len()
{
    if p.len() == 0 { pzero() } else { padd(pscale(p[0], q), pmulx(pmulp(p.drop_first(), q))) }
}
// formal derivative in characteristic 2: (c x^(i+1))' = (i+1) c x^i, and i + 1 is 1 or 0 in the field
pub open spec fn pderiv(p: Seq<u16>) -> Seq<u16> {
    Seq::new((if p.len() >= 1 { p.len() - 1 } else { 0 }) as nat, |i: int| if (i + 1) % 2 == 1 { p[i + 1] } else { 0u16 })
}
// quotient of the synthetic division of p by (x ^ a): q[i] = p[i+1] ^ a * q[i+1], i.e. q[i] = Horner value of p[i+1..] at a
pub open spec fn pdiv_lin(p: Seq<u16>, a: u16) -> Seq<u16>
    decreases p.len()
{
    if p.len() <= 1 { pzero() } else { pcons(peval(p.drop_first(), a), pdiv_lin(p.drop_first(), a)) }
}

// ---------------------------------------------------------------- xor helpers
pub proof fn lemma_xor4(a: u16, b: u16, c: u16, d: u16)
    ensures (a ^ b) ^ (c ^ d) == (a ^ c) ^ (b ^ d)
{
    assert((a ^ b) ^ (c ^ d) == (a ^ c) ^ (b ^ d)) by (bit_vector);
}
pub proof fn lemma_xor0()
    ensures 0u16 ^ 0u16 == 0u16
{
    assert(0u16 ^ 0u16 == 0u16) by (bit_vector);
}

// ---------------------------------------------------------------- coefficients
pub proof fn lemma_coef_tail(p: Seq<u16>, i: int)
    requires i >= 0
    ensures coef(ptail(p), i) == coef(p, i + 1)
{
}
pub proof fn lemma_coef_pcons(c: u16, p: Seq<u16>, i: int)
    ensures coef(pcons(c, p), i) == if i == 0 { c } else { coef(p, i - 1) },
        pcons(c, p).len() == p.len() + 1, ptail(pcons(c, p)) =~= p
{
}
pub proof fn lemma_coef_padd(p: Seq<u16>, q: Seq<u16>, i: int)
    ensures coef(padd(p, q), i) == coef(p, i) ^ coef(q, i)
{
    lemma_xor0();
}
pub proof fn lemma_coef_pscale(c: u16, p: Seq<u16>, i: int)
    ensures coef(pscale(c, p), i) == fmul(c, coef(p, i))
{
    lemma_fmul_zero(c);
}
pub proof fn lemma_coef_pmulx(p: Seq<u16>, i: int)
    ensures coef(pmulx(p), i) == coef(p, i - 1)
{
    lemma_coef_pcons(0u16, p, i);
}
pub proof fn lemma_coef_pmulp(p: Seq<u16>, q: Seq<u16>, k: int)
    requires p.len() > 0
    ensures coef(pmulp(p, q), k) == fmul(p[0], coef(q, k)) ^ coef(pmulp(ptail(p), q), k - 1)
{
    let r = pmulp(p.drop_first(), q);
    lemma_coef_padd(pscale(p[0], q), pmulx(r), k);
    lemma_coef_pscale(p[0], q, k);
    lemma_coef_pmulx(r, k);
}
pub proof fn lemma_coef_pderiv(p: Seq<u16>, i: int)
    ensures coef(pderiv(p), i) == if (i + 1) % 2 == 1 { coef(p, i + 1) } else { 0u16 }
{
}
pub proof fn lemma_coef_pconst(c: u16, i: int)
    ensures coef(pconst(c), i) == if i == 0 { c } else { 0u16 }
{
}

// ---------------------------------------------------------------- polynomial equality and degree, basic facts
pub proof fn lemma_peq_refl(p: Seq<u16>)
    ensures peq(p, p)
{
}
pub proof fn lemma_peq_sym(p: Seq<u16>, q: Seq<u16>)
    requires peq(p, q)
    ensures peq(q, p)
{
    assert forall|i: int| coef(q, i) == coef(p, i) by { assert(coef(p, i) == coef(q, i)); }
}
pub proof fn lemma_peq_trans(p: Seq<u16>, q: Seq<u16>, r: Seq<u16>)
    requires peq(p, q), peq(q, r)
    ensures peq(p, r)
{
    assert forall|i: int| coef(p, i) == coef(r, i) by { assert(coef(p, i) == coef(q, i)); assert(coef(q, i) == coef(r, i)); }
}
pub proof fn lemma_peq_deg(p: Seq<u16>, q: Seq<u16>, n: int)
    requires peq(p, q), deg_lt(p, n)
    ensures deg_lt(q, n)
{
    assert forall|i: int| n <= i implies #[trigger] coef(q, i) == 0 by { assert(coef(p, i) == coef(q, i)); }
}
pub proof fn lemma_deg_mono(p: Seq<u16>, n: int, m: int)
    requires deg_lt(p, n), n <= m
    ensures deg_lt(p, m)
{
}
pub proof fn lemma_deg_len(p: Seq<u16>)
    ensures deg_lt(p, p.len() as int)
{
}
pub proof fn lemma_zero_deg(p: Seq<u16>)
    ensures is_zero_poly(p) <==> deg_lt(p, 0),
        is_zero_poly(p) <==> (forall|i: int| 0 <= i < p.len() ==> p[i] == 0),
        is_zero_poly(p) <==> peq(p, pzero()),
{
    if deg_lt(p, 0) {
        assert forall|i: int| #[trigger] coef(p, i) == 0 by { if i >= 0 { assert(coef(p, i) == 0); } }
    }
    if forall|i: int| 0 <= i < p.len() ==> p[i] == 0 {
        assert forall|i: int| #[trigger] coef(p, i) == 0 by { }
    }
    if is_zero_poly(p) {
        assert forall|i: int| 0 <= i < p.len() implies p[i] == 0 by { assert(coef(p, i) == 0); }
        assert forall|i: int| coef(p, i) == coef(pzero(), i) by { assert(coef(p, i) == 0); }
    }
    if peq(p, pzero()) {
        assert forall|i: int| #[trigger] coef(p, i) == 0 by { assert(coef(p, i) == coef(pzero(), i)); }
    }
}
pub proof fn lemma_deg_tail(p: Seq<u16>, n: int)
    requires deg_lt(p, n)
    ensures deg_lt(ptail(p), if n >= 1 { n - 1 } else { 0 })
{
    assert forall|i: int| (if n >= 1 { n - 1 } else { 0 }) <= i implies #[trigger] coef(ptail(p), i) == 0 by {
        lemma_coef_tail(p, i);
        assert(coef(p, i + 1) == 0);
    }
}

// ---------------------------------------------------------------- evaluation
pub proof fn lemma_peval_unfold(p: Seq<u16>, x: u16)
    ensures peval(p, x) == coef(p, 0) ^ fmul(x, peval(ptail(p), x))
{
    if p.len() == 0 { lemma_fmul_zero(x); lemma_xor0(); }
}
pub proof fn lemma_peval_pcons(c: u16, p: Seq<u16>, x: u16)
    ensures peval(pcons(c, p), x) == c ^ fmul(x, peval(p, x))
{
    lemma_coef_pcons(c, p, 0);
    lemma_peval_unfold(pcons(c, p), x);
}
pub proof fn lemma_peval_zero(p: Seq<u16>, x: u16)
    requires is_zero_poly(p)
    ensures peval(p, x) == 0
    decreases p.len()
{
    if p.len() > 0 {
        let t = ptail(p);
        assert forall|i: int| #[trigger] coef(t, i) == 0 by {
            if i >= 0 { lemma_coef_tail(p, i); assert(coef(p, i + 1) == 0); }
        }
        lemma_peval_zero(t, x);
        lemma_peval_unfold(p, x);
        assert(coef(p, 0) == 0);
        lemma_fmul_zero(x); lemma_xor0();
    }
}
// evaluation depends on the coefficients only (not on trailing zeros)
pub proof fn lemma_peval_ext(p: Seq<u16>, q: Seq<u16>, x: u16)
    requires peq(p, q)
    ensures peval(p, x) == peval(q, x)
    decreases p.len() + q.len()
{
    if p.len() == 0 {
        assert forall|i: int| #[trigger] coef(q, i) == 0 by { assert(coef(p, i) == coef(q, i)); }
        lemma_peval_zero(q, x);
    } else if q.len() == 0 {
        assert forall|i: int| #[trigger] coef(p, i) == 0 by { assert(coef(p, i) == coef(q, i)); }
        lemma_peval_zero(p, x);
    } else {
        let pt = ptail(p); let qt = ptail(q);
        assert forall|i: int| coef(pt, i) == coef(qt, i) by {
            if i >= 0 { lemma_coef_tail(p, i); lemma_coef_tail(q, i); assert(coef(p, i + 1) == coef(q, i + 1)); }
        }
        lemma_peval_ext(pt, qt, x);
        lemma_peval_unfold(p, x); lemma_peval_unfold(q, x);
        assert(coef(p, 0) == coef(q, 0));
    }
}
pub proof fn lemma_peval_pzero(x: u16)
    ensures peval(pzero(), x) == 0
{
}
pub proof fn lemma_peval_pconst(c: u16, x: u16)
    ensures peval(pconst(c), x) == c
{
    lemma_peval_unfold(pconst(c), x);
    assert(ptail(pconst(c)).len() == 0);
    lemma_fmul_zero(x);
    lemma_xor_basic(c, 0, 0);
}
pub proof fn lemma_peval_plin(a: u16, x: u16)
    ensures peval(plin(a), x) == x ^ a
{
    let p = plin(a);
    lemma_peval_unfold(p, x);
    assert(ptail(p) =~= pconst(one()));
    lemma_peval_pconst(one(), x);
    lemma_fmul_one(x);
    lemma_xor_basic(a, x, 0);
}
pub proof fn lemma_peval_padd(p: Seq<u16>, q: Seq<u16>, x: u16)
    ensures peval(padd(p, q), x) == peval(p, x) ^ peval(q, x)
    decreases p.len() + q.len()
{
    if p.len() == 0 && q.len() == 0 {
        lemma_xor0();
    } else {
        let r = padd(p, q);
        let pt = ptail(p); let qt = ptail(q);
        assert(ptail(r) =~= padd(pt, qt));
        lemma_peval_padd(pt, qt, x);
        lemma_peval_unfold(r, x); lemma_peval_unfold(p, x); lemma_peval_unfold(q, x);
        lemma_coef_padd(p, q, 0);
        let ep = peval(pt, x); let eq = peval(qt, x);
        lemma_fmul_xor_r(x, ep, eq);
        lemma_xor4(coef(p, 0), coef(q, 0), fmul(x, ep), fmul(x, eq));
    }
}
pub proof fn lemma_peval_pscale(c: u16, p: Seq<u16>, x: u16)
    ensures peval(pscale(c, p), x) == fmul(c, peval(p, x))
    decreases p.len()
{
    if p.len() == 0 {
        lemma_fmul_zero(c);
    } else {
        let r = pscale(c, p);
        let pt = ptail(p);
        assert(ptail(r) =~= pscale(c, pt));
        lemma_peval_pscale(c, pt, x);
        lemma_peval_unfold(r, x); lemma_peval_unfold(p, x);
        lemma_coef_pscale(c, p, 0);
        let e = peval(pt, x);
        lemma_fmul_xor_r(c, coef(p, 0), fmul(x, e));
        // c * (x * e) == x * (c * e)
        lemma_fmul_assoc(c, x, e); lemma_fmul_comm(c, x); lemma_fmul_assoc(x, c, e);
    }
}
pub proof fn lemma_peval_pmulx(p: Seq<u16>, x: u16)
    ensures peval(pmulx(p), x) == fmul(x, peval(p, x))
{
    lemma_peval_pcons(0u16, p, x);
    lemma_xor_basic(fmul(x, peval(p, x)), 0, 0);
}
pub proof fn lemma_peval_pmulp(p: Seq<u16>, q: Seq<u16>, x: u16)
    ensures peval(pmulp(p, q), x) == fmul(peval(p, x), peval(q, x))
    decreases p.len()
{
    let eq = peval(q, x);
    if p.len() == 0 {
        lemma_fmul_zero(eq);
    } else {
        let pt = ptail(p);
        let r = pmulp(pt, q);
        lemma_peval_pmulp(pt, q, x);
        lemma_peval_padd(pscale(p[0], q), pmulx(r), x);
        lemma_peval_pscale(p[0], q, x);
        lemma_peval_pmulx(r, x);
        lemma_peval_unfold(p, x);
        let ept = peval(pt, x);
        lemma_fmul_xor_l(p[0], fmul(x, ept), eq);
        lemma_fmul_assoc(x, ept, eq);
    }
}

// ---------------------------------------------------------------- degree bookkeeping
pub proof fn lemma_deg_padd(p: Seq<u16>, q: Seq<u16>, n: int)
    requires deg_lt(p, n), deg_lt(q, n)
    ensures deg_lt(padd(p, q), n)
{
    assert forall|i: int| n <= i implies #[trigger] coef(padd(p, q), i) == 0 by {
        lemma_coef_padd(p, q, i); assert(coef(p, i) == 0 && coef(q, i) == 0); lemma_xor0();
    }
}
pub proof fn lemma_deg_pscale(c: u16, p: Seq<u16>, n: int)
    requires deg_lt(p, n)
    ensures deg_lt(pscale(c, p), n)
{
    assert forall|i: int| n <= i implies #[trigger] coef(pscale(c, p), i) == 0 by {
        lemma_coef_pscale(c, p, i); assert(coef(p, i) == 0); lemma_fmul_zero(c);
    }
}
pub proof fn lemma_deg_pmulx(p: Seq<u16>, n: int)
    requires deg_lt(p, n), n >= 0
    ensures deg_lt(pmulx(p), n + 1)
{
    assert forall|i: int| n + 1 <= i implies #[trigger] coef(pmulx(p), i) == 0 by {
        lemma_coef_pmulx(p, i); assert(coef(p, i - 1) == 0);
    }
}
pub proof fn lemma_deg_pconst(c: u16)
    ensures deg_lt(pconst(c), 1), deg_lt(pzero(), 0), deg_lt(plin(c), 2)
{
}
// deg(p * q) < n + m - 1 when deg p < n, deg q < m; the product with the zero polynomial is zero
pub proof fn lemma_deg_pmulp(p: Seq<u16>, q: Seq<u16>, n: int, m: int)
    requires deg_lt(p, n), deg_lt(q, m), n >= 0, m >= 0
    ensures deg_lt(pmulp(p, q), if n == 0 || m == 0 { 0 } else { n + m - 1 })
    decreases p.len()
{
    let d = if n == 0 || m == 0 { 0 } else { n + m - 1 };
    if p.len() > 0 {
        let pt = ptail(p);
        let n1 = if n >= 1 { n - 1 } else { 0 };
        lemma_deg_tail(p, n);
        lemma_deg_pmulp(pt, q, n1, m);
        let r = pmulp(pt, q);
        assert forall|k: int| d <= k implies #[trigger] coef(pmulp(p, q), k) == 0 by {
            lemma_coef_pmulp(p, q, k);
            lemma_xor0();
            if n == 0 {
                assert(coef(p, 0) == 0);
                lemma_fmul_zero(coef(q, k));
                if k >= 1 { assert(coef(r, k - 1) == 0); }
            } else if m == 0 {
                assert(coef(q, k) == 0);
                lemma_fmul_zero(p[0]);
                if k >= 1 { assert(coef(r, k - 1) == 0); }
            } else {
                assert(coef(q, k) == 0);
                lemma_fmul_zero(p[0]);
                assert(coef(r, k - 1) == 0);
            }
        }
    }
}
// the coefficient of x^(n+m-2) of p * q is the product of the coefficients of x^(n-1) and x^(m-1)
pub proof fn lemma_lead_pmulp(p: Seq<u16>, q: Seq<u16>, n: int, m: int)
    requires deg_lt(p, n), deg_lt(q, m), n >= 1, m >= 1
    ensures coef(pmulp(p, q), n + m - 2) == fmul(coef(p, n - 1), coef(q, m - 1))
    decreases p.len()
{
    if p.len() == 0 {
        lemma_fmul_zero(coef(q, m - 1));
    } else {
        let pt = ptail(p);
        let r = pmulp(pt, q);
        lemma_coef_pmulp(p, q, n + m - 2);
        lemma_deg_tail(p, n);
        if n == 1 {
            lemma_deg_pmulp(pt, q, 0, m);
            if m >= 2 { assert(coef(r, m - 2) == 0); }
            lemma_xor_basic(fmul(p[0], coef(q, m - 1)), 0, 0);
        } else {
            assert(coef(q, n + m - 2) == 0);
            lemma_fmul_zero(p[0]);
            lemma_lead_pmulp(pt, q, n - 1, m);
            lemma_coef_tail(p, n - 2);
            lemma_xor_basic(coef(r, n + m - 3), 0, 0);
        }
    }
}
pub proof fn lemma_pmulp_zero(p: Seq<u16>, q: Seq<u16>)
    requires is_zero_poly(p) || is_zero_poly(q)
    ensures is_zero_poly(pmulp(p, q))
{
    lemma_zero_deg(p); lemma_zero_deg(q); lemma_zero_deg(pmulp(p, q));
    lemma_deg_len(p); lemma_deg_len(q);
    if is_zero_poly(p) { lemma_deg_pmulp(p, q, 0, q.len() as int); } else { lemma_deg_pmulp(p, q, p.len() as int, 0); }
}

// ---------------------------------------------------------------- congruence of the operations w.r.t. peq
pub proof fn lemma_peq_padd(p: Seq<u16>, p2: Seq<u16>, q: Seq<u16>, q2: Seq<u16>)
    requires peq(p, p2), peq(q, q2)
    ensures peq(padd(p, q), padd(p2, q2))
{
    assert forall|i: int| coef(padd(p, q), i) == coef(padd(p2, q2), i) by {
        lemma_coef_padd(p, q, i); lemma_coef_padd(p2, q2, i);
        assert(coef(p, i) == coef(p2, i)); assert(coef(q, i) == coef(q2, i));
    }
}
pub proof fn lemma_peq_pscale(c: u16, p: Seq<u16>, p2: Seq<u16>)
    requires peq(p, p2)
    ensures peq(pscale(c, p), pscale(c, p2))
{
    assert forall|i: int| coef(pscale(c, p), i) == coef(pscale(c, p2), i) by {
        lemma_coef_pscale(c, p, i); lemma_coef_pscale(c, p2, i); assert(coef(p, i) == coef(p2, i));
    }
}
pub proof fn lemma_peq_pmulx(p: Seq<u16>, p2: Seq<u16>)
    requires peq(p, p2)
    ensures peq(pmulx(p), pmulx(p2))
{
    assert forall|i: int| coef(pmulx(p), i) == coef(pmulx(p2), i) by {
        lemma_coef_pmulx(p, i); lemma_coef_pmulx(p2, i); assert(coef(p, i - 1) == coef(p2, i - 1));
    }
}
pub proof fn lemma_peq_pderiv(p: Seq<u16>, p2: Seq<u16>)
    requires peq(p, p2)
    ensures peq(pderiv(p), pderiv(p2))
{
    assert forall|i: int| coef(pderiv(p), i) == coef(pderiv(p2), i) by {
        lemma_coef_pderiv(p, i); lemma_coef_pderiv(p2, i); assert(coef(p, i + 1) == coef(p2, i + 1));
    }
}

// ---------------------------------------------------------------- factor theorem (synthetic division by x ^ a)
// p == (x ^ a) * q + p(a), coefficient by coefficient, with q = pdiv_lin(p, a)
pub proof fn lemma_pdiv_coef(p: Seq<u16>, a: u16, i: int)
    ensures coef(p, i) == (coef(pdiv_lin(p, a), i - 1) ^ fmul(a, coef(pdiv_lin(p, a), i))) ^ (if i == 0 { peval(p, a) } else { 0u16 })
    decreases p.len()
{
    let q = pdiv_lin(p, a);
    lemma_xor0();
    lemma_fmul_zero(a);
    if p.len() <= 1 {
        assert(coef(q, i) == 0 && coef(q, i - 1) == 0);
        if p.len() == 1 { lemma_peval_pconst(p[0], a); assert(p =~= pconst(p[0])); }
        lemma_xor_basic(coef(p, i), 0, 0);
    } else {
        let pt = ptail(p);
        let qt = pdiv_lin(pt, a);
        let rt = peval(pt, a);
        lemma_coef_pcons(rt, qt, i); lemma_coef_pcons(rt, qt, i - 1);
        if i <= 0 {
            lemma_peval_unfold(p, a);
            let c0 = coef(p, 0); let t = fmul(a, rt);
            if i == 0 { assert(c0 == (0u16 ^ t) ^ (c0 ^ t)) by (bit_vector); }
        } else {
            lemma_pdiv_coef(pt, a, i - 1);
            lemma_coef_tail(p, i - 1);
            let u = coef(qt, i - 2); let v = fmul(a, coef(qt, i - 1));
            if i == 1 {
                assert(u == 0);
                assert((0u16 ^ v) ^ rt == (rt ^ v) ^ 0u16) by (bit_vector);
            }
        }
    }
}
pub proof fn lemma_pdiv_deg(p: Seq<u16>, a: u16, n: int)
    requires deg_lt(p, n + 1), n >= 0
    ensures deg_lt(pdiv_lin(p, a), n)
    decreases p.len()
{
    let q = pdiv_lin(p, a);
    if p.len() > 1 {
        let pt = ptail(p);
        let qt = pdiv_lin(pt, a);
        let rt = peval(pt, a);
        lemma_deg_tail(p, n + 1);
        if n == 0 {
            lemma_zero_deg(pt); lemma_peval_zero(pt, a);
            lemma_deg_mono(pt, 0, 1);
            lemma_pdiv_deg(pt, a, 0);
        } else {
            lemma_pdiv_deg(pt, a, n - 1);
        }
        assert forall|i: int| n <= i implies #[trigger] coef(q, i) == 0 by {
            lemma_coef_pcons(rt, qt, i);
            if i >= 1 { assert(coef(qt, i - 1) == 0); }
        }
    }
}
// evaluation form: p(x) == (x ^ a) * q(x) ^ p(a)
pub proof fn lemma_pdiv_eval(p: Seq<u16>, a: u16, x: u16)
    ensures peval(p, x) == fmul(x ^ a, peval(pdiv_lin(p, a), x)) ^ peval(p, a)
    decreases p.len()
{
    let q = pdiv_lin(p, a);
    if p.len() <= 1 {
        lemma_fmul_zero(x ^ a);
        if p.len() == 1 { assert(p =~= pconst(p[0])); lemma_peval_pconst(p[0], a); lemma_peval_pconst(p[0], x); }
        lemma_xor_basic(peval(p, a), 0, 0);
    } else {
        let pt = ptail(p);
        let qt = pdiv_lin(pt, a);
        let rt = peval(pt, a);
        lemma_pdiv_eval(pt, a, x);
        lemma_peval_pcons(rt, qt, x);
        lemma_peval_unfold(p, x); lemma_peval_unfold(p, a);
        let c0 = coef(p, 0);
        let xa = (x ^ a) as u16;
        let eq = peval(qt, x);
        // peval(pt, x) == xa * eq ^ rt
        // (x ^ a) * (rt ^ x * eq) ^ (c0 ^ a * rt)  ==  c0 ^ x * (xa * eq ^ rt)
        lemma_fmul_xor_r(xa, rt, fmul(x, eq));
        lemma_fmul_xor_l(x, a, rt);
        lemma_fmul_xor_r(x, fmul(xa, eq), rt);
        // xa * (x * eq) == x * (xa * eq)
        lemma_fmul_assoc(xa, x, eq); lemma_fmul_comm(xa, x); lemma_fmul_assoc(x, xa, eq);
        let xr = fmul(x, rt); let ar = fmul(a, rt); let w = fmul(x, fmul(xa, eq));
        assert(((xr ^ ar) ^ w) ^ (c0 ^ ar) == c0 ^ (w ^ xr)) by (bit_vector);
    }
}
// polynomial form: p == (x ^ a) * q + p(a)
pub proof fn lemma_pdiv_poly(p: Seq<u16>, a: u16)
    ensures peq(p, padd(pmulp(plin(a), pdiv_lin(p, a)), pconst(peval(p, a))))
{
    let q = pdiv_lin(p, a);
    let l = plin(a);
    let rhs = padd(pmulp(l, q), pconst(peval(p, a)));
    assert forall|i: int| coef(p, i) == coef(rhs, i) by {
        lemma_pdiv_coef(p, a, i);
        lemma_coef_padd(pmulp(l, q), pconst(peval(p, a)), i);
        lemma_coef_pconst(peval(p, a), i);
        lemma_coef_pmulp(l, q, i);
        let l1 = ptail(l);
        assert(l1 =~= pconst(one()));
        lemma_coef_pmulp(l1, q, i - 1);
        assert(ptail(l1).len() == 0);
        assert(coef(pmulp(ptail(l1), q), i - 2) == 0);
        lemma_fmul_one(coef(q, i - 1));
        lemma_xor_basic(coef(q, i - 1), 0, 0);
        let u = coef(q, i - 1); let v = fmul(a, coef(q, i));
        assert(u ^ v == v ^ u) by (bit_vector);
    }
}
// FACTOR THEOREM: a root a of p splits off the linear factor x ^ a
pub proof fn lemma_factor(p: Seq<u16>, a: u16, n: int)
    requires deg_lt(p, n + 1), n >= 0, peval(p, a) == 0
    ensures
        deg_lt(pdiv_lin(p, a), n),
        peq(p, pmulp(plin(a), pdiv_lin(p, a))),
        forall|x: u16| peval(p, x) == fmul(x ^ a, #[trigger] peval(pdiv_lin(p, a), x)),
        forall|i: int| #[trigger] coef(p, i) == coef(pdiv_lin(p, a), i - 1) ^ fmul(a, coef(pdiv_lin(p, a), i)),
        coef(pdiv_lin(p, a), n - 1) == coef(p, n),
{
    let q = pdiv_lin(p, a);
    lemma_pdiv_deg(p, a, n);
    lemma_pdiv_poly(p, a);
    assert forall|i: int| coef(p, i) == coef(pmulp(plin(a), q), i) by {
        let s = padd(pmulp(plin(a), q), pconst(0u16));
        assert(coef(p, i) == coef(s, i));
        lemma_coef_padd(pmulp(plin(a), q), pconst(0u16), i);
        lemma_coef_pconst(0u16, i);
        lemma_xor_basic(coef(pmulp(plin(a), q), i), 0, 0);
    }
    assert forall|x: u16| peval(p, x) == fmul(x ^ a, #[trigger] peval(q, x)) by {
        lemma_pdiv_eval(p, a, x);
        lemma_xor_basic(fmul(x ^ a, peval(q, x)), 0, 0);
    }
    assert forall|i: int| #[trigger] coef(p, i) == coef(q, i - 1) ^ fmul(a, coef(q, i)) by {
        lemma_pdiv_coef(p, a, i);
        lemma_xor_basic(coef(q, i - 1) ^ fmul(a, coef(q, i)), 0, 0);
    }
    assert(coef(p, n) == coef(q, n - 1) ^ fmul(a, coef(q, n)));
    assert(coef(q, n) == 0);
    lemma_fmul_zero(a);
    lemma_xor_basic(coef(q, n - 1), 0, 0);
}

// ---------------------------------------------------------------- root bound and uniqueness of interpolation
// a polynomial of degree < n with n distinct roots is the zero polynomial
pub proof fn lemma_root_bound(p: Seq<u16>, pts: Seq<u16>)
    requires
        deg_lt(p, pts.len() as int),
        pts.no_duplicates(),
        forall|i: int| 0 <= i < pts.len() ==> peval(p, #[trigger] pts[i]) == 0,
    ensures is_zero_poly(p)
    decreases pts.len()
{
    let n = pts.len() as int;
    if n == 0 {
        lemma_zero_deg(p);
    } else {
        let a = pts[n - 1];
        let q = pdiv_lin(p, a);
        let rest = pts.drop_last();
        lemma_factor(p, a, n - 1);
        assert forall|i: int| 0 <= i < rest.len() implies peval(q, #[trigger] rest[i]) == 0 by {
            let x = rest[i];
            assert(x == pts[i]);
            assert(peval(p, pts[i]) == 0);
            assert(peval(p, x) == fmul(x ^ a, peval(q, x)));
            assert(pts[i] != pts[n - 1]);
            lemma_xor_basic(x, a, 0);
            lemma_no_zero_div((x ^ a) as u16, peval(q, x));
        }
        assert(rest.no_duplicates()) by {
            assert forall|i: int, j: int| 0 <= i < rest.len() && 0 <= j < rest.len() && i != j implies rest[i] != rest[j] by {
                assert(rest[i] == pts[i] && rest[j] == pts[j]);
            }
        }
        lemma_root_bound(q, rest);
        assert forall|i: int| #[trigger] coef(p, i) == 0 by {
            assert(coef(p, i) == coef(q, i - 1) ^ fmul(a, coef(q, i)));
            assert(coef(q, i - 1) == 0 && coef(q, i) == 0);
            lemma_fmul_zero(a); lemma_xor0();
        }
    }
}
pub proof fn lemma_root_bound_eval(p: Seq<u16>, pts: Seq<u16>, x: u16)
    requires
        deg_lt(p, pts.len() as int),
        pts.no_duplicates(),
        forall|i: int| 0 <= i < pts.len() ==> peval(p, #[trigger] pts[i]) == 0,
    ensures peval(p, x) == 0
{
    lemma_root_bound(p, pts);
    lemma_peval_zero(p, x);
}
// two polynomials of degree < n agreeing at n distinct points are equal (as polynomials, hence as functions)
pub proof fn lemma_interp_unique(p: Seq<u16>, q: Seq<u16>, pts: Seq<u16>)
    requires
        deg_lt(p, pts.len() as int), deg_lt(q, pts.len() as int),
        pts.no_duplicates(),
        forall|i: int| 0 <= i < pts.len() ==> peval(p, #[trigger] pts[i]) == peval(q, pts[i]),
    ensures
        peq(p, q),
        forall|x: u16| #[trigger] peval(p, x) == peval(q, x),
{
    let d = padd(p, q);
    let n = pts.len() as int;
    lemma_deg_padd(p, q, n);
    assert forall|i: int| 0 <= i < pts.len() implies peval(d, #[trigger] pts[i]) == 0 by {
        lemma_peval_padd(p, q, pts[i]);
        lemma_xor_basic(peval(p, pts[i]), peval(q, pts[i]), 0);
    }
    lemma_root_bound(d, pts);
    assert forall|i: int| coef(p, i) == coef(q, i) by {
        lemma_coef_padd(p, q, i);
        assert(coef(d, i) == 0);
        lemma_xor_basic(coef(p, i), coef(q, i), 0);
    }
    assert forall|x: u16| #[trigger] peval(p, x) == peval(q, x) by { lemma_peval_ext(p, q, x); }
}
pub proof fn lemma_interp_unique_at(p: Seq<u16>, q: Seq<u16>, pts: Seq<u16>, x: u16)
    requires
        deg_lt(p, pts.len() as int), deg_lt(q, pts.len() as int),
        pts.no_duplicates(),
        forall|i: int| 0 <= i < pts.len() ==> peval(p, #[trigger] pts[i]) == peval(q, pts[i]),
    ensures peval(p, x) == peval(q, x)
{
    lemma_interp_unique(p, q, pts);
}

// ---------------------------------------------------------------- formal derivative
pub proof fn lemma_pderiv_padd(p: Seq<u16>, q: Seq<u16>)
    ensures pderiv(padd(p, q)) =~= padd(pderiv(p), pderiv(q))
{
    let l = pderiv(padd(p, q)); let r = padd(pderiv(p), pderiv(q));
    assert(l.len() == r.len());
    assert forall|i: int| 0 <= i < l.len() implies l[i] == r[i] by {
        lemma_coef_pderiv(padd(p, q), i); lemma_coef_padd(p, q, i + 1);
        lemma_coef_padd(pderiv(p), pderiv(q), i); lemma_coef_pderiv(p, i); lemma_coef_pderiv(q, i);
        lemma_xor0();
        assert(l[i] == coef(l, i) && r[i] == coef(r, i));
    }
}
pub proof fn lemma_pderiv_pscale(c: u16, p: Seq<u16>)
    ensures pderiv(pscale(c, p)) =~= pscale(c, pderiv(p))
{
    let l = pderiv(pscale(c, p)); let r = pscale(c, pderiv(p));
    assert(l.len() == r.len());
    assert forall|i: int| 0 <= i < l.len() implies l[i] == r[i] by {
        lemma_coef_pderiv(pscale(c, p), i); lemma_coef_pscale(c, p, i + 1);
        lemma_coef_pscale(c, pderiv(p), i); lemma_coef_pderiv(p, i);
        lemma_fmul_zero(c);
        assert(l[i] == coef(l, i) && r[i] == coef(r, i));
    }
}
pub proof fn lemma_pderiv_pconst(c: u16)
    ensures is_zero_poly(pderiv(pconst(c))), pderiv(pzero()) =~= pzero()
{
    assert forall|i: int| #[trigger] coef(pderiv(pconst(c)), i) == 0 by { }
}
pub proof fn lemma_pderiv_deg(p: Seq<u16>, n: int)
    requires deg_lt(p, n)
    ensures deg_lt(pderiv(p), if n >= 1 { n - 1 } else { 0 })
{
    assert forall|i: int| (if n >= 1 { n - 1 } else { 0 }) <= i implies #[trigger] coef(pderiv(p), i) == 0 by {
        lemma_coef_pderiv(p, i); assert(coef(p, i + 1) == 0);
    }
}
// (c + x * p)' == p + x * p'
pub proof fn lemma_pderiv_pcons(c: u16, p: Seq<u16>)
    ensures peq(pderiv(pcons(c, p)), padd(p, pmulx(pderiv(p))))
{
    let l = pderiv(pcons(c, p)); let r = padd(p, pmulx(pderiv(p)));
    assert forall|i: int| coef(l, i) == coef(r, i) by {
        lemma_coef_pderiv(pcons(c, p), i);
        lemma_coef_pcons(c, p, i + 1);
        lemma_coef_padd(p, pmulx(pderiv(p)), i);
        lemma_coef_pmulx(pderiv(p), i);
        lemma_coef_pderiv(p, i - 1);
        lemma_xor_basic(coef(p, i), 0, 0);
        if i < 0 { lemma_xor0(); }
    }
}
pub proof fn lemma_pderiv_pmulx(p: Seq<u16>)
    ensures peq(pderiv(pmulx(p)), padd(p, pmulx(pderiv(p))))
{
    lemma_pderiv_pcons(0u16, p);
}
pub proof fn lemma_peval_pderiv_unfold(p: Seq<u16>, x: u16)
    ensures peval(pderiv(p), x) == peval(ptail(p), x) ^ fmul(x, peval(pderiv(ptail(p)), x))
{
    if p.len() == 0 {
        assert(pderiv(p) =~= pzero());
        lemma_fmul_zero(x); lemma_xor0();
    } else {
        let t = ptail(p);
        assert(p =~= pcons(p[0], t));
        lemma_pderiv_pcons(p[0], t);
        lemma_peval_ext(pderiv(p), padd(t, pmulx(pderiv(t))), x);
        lemma_peval_padd(t, pmulx(pderiv(t)), x);
        lemma_peval_pmulx(pderiv(t), x);
    }
}
pub proof fn lemma_peval_pderiv_pmulx(p: Seq<u16>, x: u16)
    ensures peval(pderiv(pmulx(p)), x) == peval(p, x) ^ fmul(x, peval(pderiv(p), x))
{
    lemma_peval_pderiv_unfold(pmulx(p), x);
    lemma_coef_pcons(0u16, p, 0);
}
pub proof fn lemma_peval_pderiv_padd(p: Seq<u16>, q: Seq<u16>, x: u16)
    ensures peval(pderiv(padd(p, q)), x) == peval(pderiv(p), x) ^ peval(pderiv(q), x)
{
    lemma_pderiv_padd(p, q);
    lemma_peval_padd(pderiv(p), pderiv(q), x);
}
pub proof fn lemma_peval_pderiv_pscale(c: u16, p: Seq<u16>, x: u16)
    ensures peval(pderiv(pscale(c, p)), x) == fmul(c, peval(pderiv(p), x))
{
    lemma_pderiv_pscale(c, p);
    lemma_peval_pscale(c, pderiv(p), x);
}
// PRODUCT RULE (evaluation level): (p * q)'(x) == p'(x) * q(x) ^ p(x) * q'(x)
pub proof fn lemma_product_rule(p: Seq<u16>, q: Seq<u16>, x: u16)
    ensures peval(pderiv(pmulp(p, q)), x)
        == fmul(peval(pderiv(p), x), peval(q, x)) ^ fmul(peval(p, x), peval(pderiv(q), x))
    decreases p.len()
{
    let Q = peval(q, x); let dQ = peval(pderiv(q), x);
    if p.len() == 0 {
        assert(pderiv(pzero()) =~= pzero());
        lemma_fmul_zero(Q); lemma_fmul_zero(dQ); lemma_xor0();
    } else {
        let t = ptail(p);
        let r = pmulp(t, q);
        let p0 = p[0];
        let T = peval(t, x); let dT = peval(pderiv(t), x);
        lemma_product_rule(t, q, x);
        // (p0 * q + x * r)' = p0 * q' + r + x * r'
        lemma_peval_pderiv_padd(pscale(p0, q), pmulx(r), x);
        lemma_peval_pderiv_pscale(p0, q, x);
        lemma_peval_pderiv_pmulx(r, x);
        lemma_peval_pmulp(t, q, x);
        let R = peval(r, x); let dR = peval(pderiv(r), x);
        assert(R == fmul(T, Q));
        assert(dR == fmul(dT, Q) ^ fmul(T, dQ));
        assert(peval(pderiv(pmulp(p, q)), x) == fmul(p0, dQ) ^ (R ^ fmul(x, dR)));
        // p = p0 + x t;  p' = t + x t'
        lemma_peval_unfold(p, x);
        lemma_peval_pderiv_unfold(p, x);
        let P = peval(p, x); let dP = peval(pderiv(p), x);
        assert(P == p0 ^ fmul(x, T));
        assert(dP == T ^ fmul(x, dT));
        // dP * Q = T Q ^ x dT Q ; P * dQ = p0 dQ ^ x T dQ
        lemma_fmul_xor_l(T, fmul(x, dT), Q);
        lemma_fmul_xor_l(p0, fmul(x, T), dQ);
        lemma_fmul_assoc(x, dT, Q);
        lemma_fmul_assoc(x, T, dQ);
        lemma_fmul_xor_r(x, fmul(dT, Q), fmul(T, dQ));
        let a = fmul(p0, dQ); let b = fmul(T, Q); let c = fmul(x, fmul(dT, Q)); let d = fmul(x, fmul(T, dQ));
        assert(a ^ (b ^ (c ^ d)) == (b ^ c) ^ (a ^ d)) by (bit_vector);
    }
}
// the derivative of a square vanishes (characteristic 2)
pub proof fn lemma_pderiv_square(p: Seq<u16>, x: u16)
    ensures peval(pderiv(pmulp(p, p)), x) == 0
{
    lemma_product_rule(p, p, x);
    lemma_fmul_comm(peval(pderiv(p), x), peval(p, x));
    lemma_xor_basic(fmul(peval(p, x), peval(pderiv(p), x)), 0, 0);
}

// ---------------------------------------------------------------- at most 65536 distinct points (pigeonhole)
pub open spec fn ptset(pts: Seq<u16>, n: int) -> Set<int>
    decreases n
{
    if n <= 0 { Set::<int>::empty() } else { ptset(pts, n - 1).insert(pts[n - 1] as int) }
}
pub proof fn lemma_ptset(pts: Seq<u16>, n: int)
    requires 0 <= n <= pts.len(), pts.no_duplicates()
    ensures ptset(pts, n).finite(), ptset(pts, n).len() == n, ptset(pts, n).subset_of(vstd::set_lib::set_int_range(0, 65536)),
        forall|c: int| ptset(pts, n).contains(c) ==> (exists|j: int| 0 <= j < n && pts[j] as int == c),
    decreases n
{
    if n > 0 {
        lemma_ptset(pts, n - 1);
        let c0 = pts[n - 1] as int;
        if ptset(pts, n - 1).contains(c0) {
            let j = choose|j: int| 0 <= j < n - 1 && pts[j] as int == c0;
            assert(pts[j] == pts[n - 1]);
        }
        assert forall|c: int| ptset(pts, n).contains(c) implies (exists|j: int| 0 <= j < n && pts[j] as int == c) by {
            if c == c0 { assert(pts[n - 1] as int == c); }
            else { let j = choose|j: int| 0 <= j < n - 1 && pts[j] as int == c; assert(0 <= j < n && pts[j] as int == c); }
        }
    }
}
pub proof fn lemma_distinct_len(pts: Seq<u16>)
    requires pts.no_duplicates()
    ensures pts.len() <= 65536
{
    lemma_ptset(pts, pts.len() as int);
    vstd::set_lib::lemma_int_range(0, 65536);
    vstd::set_lib::lemma_len_subset(ptset(pts, pts.len() as int), vstd::set_lib::set_int_range(0, 65536));
}

// ---------------------------------------------------------------- products of linear factors (vanishing polynomials)
// proots(pts) = prod_i (x ^ pts[i]);  eprod(pts, x) = its value
pub open spec fn proots(pts: Seq<u16>) -> Seq<u16>
    decreases pts.len()
{
    if pts.len() == 0 { pconst(one()) } else { pmulp(proots(pts.drop_last()), plin(pts.last())) }
}
pub open spec fn eprod(pts: Seq<u16>, x: u16) -> u16
    decreases pts.len()
{
    if pts.len() == 0 { one() } else { fmul(eprod(pts.drop_last(), x), x ^ pts.last()) }
}
pub proof fn lemma_proots_eval(pts: Seq<u16>, x: u16)
    ensures peval(proots(pts), x) == eprod(pts, x)
    decreases pts.len()
{
    if pts.len() == 0 {
        lemma_peval_pconst(one(), x);
    } else {
        lemma_proots_eval(pts.drop_last(), x);
        lemma_peval_pmulp(proots(pts.drop_last()), plin(pts.last()), x);
        lemma_peval_plin(pts.last(), x);
    }
}
// monic of degree exactly pts.len()
pub proof fn lemma_proots_deg(pts: Seq<u16>)
    ensures deg_lt(proots(pts), pts.len() as int + 1), coef(proots(pts), pts.len() as int) == one()
    decreases pts.len()
{
    if pts.len() == 0 {
        lemma_deg_pconst(one());
    } else {
        let r = proots(pts.drop_last());
        let n = pts.len() as int;
        lemma_proots_deg(pts.drop_last());
        lemma_deg_pconst(pts.last());
        lemma_deg_pmulp(r, plin(pts.last()), n, 2);
        lemma_lead_pmulp(r, plin(pts.last()), n, 2);
        lemma_fmul_one(one());
    }
}
pub proof fn lemma_eprod_root(pts: Seq<u16>, j: int)
    requires 0 <= j < pts.len()
    ensures eprod(pts, pts[j]) == 0
    decreases pts.len()
{
    let rest = pts.drop_last();
    if j == pts.len() - 1 {
        lemma_xor_basic(pts[j], 0, 0);
        lemma_fmul_zero(eprod(rest, pts[j]));
    } else {
        assert(rest[j] == pts[j]);
        lemma_eprod_root(rest, j);
        lemma_fmul_zero(pts[j] ^ pts.last());
    }
}
pub proof fn lemma_eprod_nz(pts: Seq<u16>, x: u16)
    requires forall|i: int| 0 <= i < pts.len() ==> pts[i] != x
    ensures eprod(pts, x) != 0
    decreases pts.len()
{
    lemma_one();
    if pts.len() > 0 {
        let rest = pts.drop_last();
        assert forall|i: int| 0 <= i < rest.len() implies rest[i] != x by { assert(rest[i] == pts[i]); }
        lemma_eprod_nz(rest, x);
        assert(pts[pts.len() - 1] != x);
        lemma_xor_basic(x, pts.last(), 0);
        lemma_fmul_nz(eprod(rest, x), (x ^ pts.last()) as u16);
    }
}
// derivative of a product of linear factors: (r * (x ^ a))' = r' * (x ^ a) + r
pub proof fn lemma_proots_deriv(pts: Seq<u16>, x: u16)
    requires pts.len() > 0
    ensures peval(pderiv(proots(pts)), x)
        == fmul(peval(pderiv(proots(pts.drop_last())), x), x ^ pts.last()) ^ eprod(pts.drop_last(), x)
{
    let r = proots(pts.drop_last());
    let a = pts.last();
    lemma_product_rule(r, plin(a), x);
    lemma_peval_plin(a, x);
    assert(pderiv(plin(a)) =~= pconst(one()));
    lemma_peval_pconst(one(), x);
    lemma_proots_eval(pts.drop_last(), x);
    lemma_fmul_one(eprod(pts.drop_last(), x));
}
// at a root pts[j] the derivative is the product of the other factors: prod_{i != j} (pts[j] ^ pts[i])
pub proof fn lemma_proots_deriv_root(pts: Seq<u16>, j: int)
    requires 0 <= j < pts.len()
    ensures peval(pderiv(proots(pts)), pts[j]) == eprod(pts.remove(j), pts[j])
    decreases pts.len()
{
    let rest = pts.drop_last();
    let a = pts.last();
    let x = pts[j];
    lemma_proots_deriv(pts, x);
    if j == pts.len() - 1 {
        assert(pts.remove(j) =~= rest);
        lemma_xor_basic(x, 0, 0);
        lemma_fmul_zero(peval(pderiv(proots(rest)), x));
        lemma_xor_basic(eprod(rest, x), 0, 0);
    } else {
        assert(rest[j] == pts[j]);
        lemma_proots_deriv_root(rest, j);
        lemma_eprod_root(rest, j);
        let o = pts.remove(j);
        assert(o.drop_last() =~= rest.remove(j));
        assert(o.last() == a);
        lemma_xor_basic(fmul(eprod(rest.remove(j), x), x ^ a), 0, 0);
    }
}

// ---------------------------------------------------------------- ring laws for pmulp, up to peq (coefficient level)
pub proof fn lemma_coef_pmulp_gen(p: Seq<u16>, q: Seq<u16>, k: int)
    ensures coef(pmulp(p, q), k) == fmul(coef(p, 0), coef(q, k)) ^ coef(pmulp(ptail(p), q), k - 1)
{
    if p.len() == 0 { lemma_fmul_zero(coef(q, k)); lemma_xor0(); } else { lemma_coef_pmulp(p, q, k); }
}
pub proof fn lemma_peq_tail(p: Seq<u16>, q: Seq<u16>)
    requires peq(p, q)
    ensures peq(ptail(p), ptail(q)), coef(p, 0) == coef(q, 0)
{
    assert forall|i: int| coef(ptail(p), i) == coef(ptail(q), i) by {
        if i >= 0 { lemma_coef_tail(p, i); lemma_coef_tail(q, i); assert(coef(p, i + 1) == coef(q, i + 1)); }
    }
    assert(coef(p, 0) == coef(q, 0));
}
// p == p[0] + x * tail(p)
pub proof fn lemma_p_decomp(p: Seq<u16>)
    ensures peq(p, padd(pconst(coef(p, 0)), pmulx(ptail(p))))
{
    let r = padd(pconst(coef(p, 0)), pmulx(ptail(p)));
    assert forall|i: int| coef(p, i) == coef(r, i) by {
        lemma_coef_padd(pconst(coef(p, 0)), pmulx(ptail(p)), i);
        lemma_coef_pconst(coef(p, 0), i);
        lemma_coef_pmulx(ptail(p), i);
        if i >= 1 { lemma_coef_tail(p, i - 1); }
        lemma_xor_basic(coef(p, i), 0, 0);
        lemma_xor0();
    }
}
pub proof fn lemma_peq_pmulp_l(p: Seq<u16>, p2: Seq<u16>, q: Seq<u16>)
    requires peq(p, p2)
    ensures peq(pmulp(p, q), pmulp(p2, q))
    decreases p.len() + p2.len()
{
    if p.len() > 0 || p2.len() > 0 {
        let t = ptail(p); let t2 = ptail(p2);
        lemma_peq_tail(p, p2);
        lemma_peq_pmulp_l(t, t2, q);
        let a = pmulp(t, q); let a2 = pmulp(t2, q);
        assert forall|k: int| coef(pmulp(p, q), k) == coef(pmulp(p2, q), k) by {
            lemma_coef_pmulp_gen(p, q, k); lemma_coef_pmulp_gen(p2, q, k);
            assert(coef(a, k - 1) == coef(a2, k - 1));
        }
    }
}
pub proof fn lemma_peq_pmulp_r(p: Seq<u16>, q: Seq<u16>, q2: Seq<u16>)
    requires peq(q, q2)
    ensures peq(pmulp(p, q), pmulp(p, q2))
    decreases p.len()
{
    if p.len() > 0 {
        let t = ptail(p);
        lemma_peq_pmulp_r(t, q, q2);
        let a = pmulp(t, q); let a2 = pmulp(t, q2);
        assert forall|k: int| coef(pmulp(p, q), k) == coef(pmulp(p, q2), k) by {
            lemma_coef_pmulp_gen(p, q, k); lemma_coef_pmulp_gen(p, q2, k);
            assert(coef(a, k - 1) == coef(a2, k - 1));
            assert(coef(q, k) == coef(q2, k));
        }
    }
}
// (a + b) * q == a * q + b * q
pub proof fn lemma_pmulp_padd_l(a: Seq<u16>, b: Seq<u16>, q: Seq<u16>)
    ensures peq(pmulp(padd(a, b), q), padd(pmulp(a, q), pmulp(b, q)))
    decreases a.len() + b.len()
{
    let s = padd(a, b);
    let l = pmulp(s, q); let r = padd(pmulp(a, q), pmulp(b, q));
    if a.len() == 0 && b.len() == 0 {
        assert forall|k: int| coef(l, k) == coef(r, k) by { }
    } else {
        let ta = ptail(a); let tb = ptail(b);
        assert(ptail(s) =~= padd(ta, tb));
        lemma_pmulp_padd_l(ta, tb, q);
        let u = pmulp(padd(ta, tb), q); let v = padd(pmulp(ta, q), pmulp(tb, q));
        assert forall|k: int| coef(l, k) == coef(r, k) by {
            lemma_coef_pmulp_gen(s, q, k); lemma_coef_pmulp_gen(a, q, k); lemma_coef_pmulp_gen(b, q, k);
            lemma_coef_padd(pmulp(a, q), pmulp(b, q), k);
            lemma_coef_padd(a, b, 0);
            assert(coef(u, k - 1) == coef(v, k - 1));
            lemma_coef_padd(pmulp(ta, q), pmulp(tb, q), k - 1);
            lemma_fmul_xor_l(coef(a, 0), coef(b, 0), coef(q, k));
            lemma_xor4(fmul(coef(a, 0), coef(q, k)), fmul(coef(b, 0), coef(q, k)), coef(pmulp(ta, q), k - 1), coef(pmulp(tb, q), k - 1));
        }
    }
}
// p * (a + b) == p * a + p * b
pub proof fn lemma_pmulp_padd_r(p: Seq<u16>, a: Seq<u16>, b: Seq<u16>)
    ensures peq(pmulp(p, padd(a, b)), padd(pmulp(p, a), pmulp(p, b)))
    decreases p.len()
{
    let s = padd(a, b);
    let l = pmulp(p, s); let r = padd(pmulp(p, a), pmulp(p, b));
    if p.len() == 0 {
        assert forall|k: int| coef(l, k) == coef(r, k) by { }
    } else {
        let t = ptail(p);
        lemma_pmulp_padd_r(t, a, b);
        let u = pmulp(t, s); let v = padd(pmulp(t, a), pmulp(t, b));
        assert forall|k: int| coef(l, k) == coef(r, k) by {
            lemma_coef_pmulp_gen(p, s, k); lemma_coef_pmulp_gen(p, a, k); lemma_coef_pmulp_gen(p, b, k);
            lemma_coef_padd(pmulp(p, a), pmulp(p, b), k);
            lemma_coef_padd(a, b, k);
            assert(coef(u, k - 1) == coef(v, k - 1));
            lemma_coef_padd(pmulp(t, a), pmulp(t, b), k - 1);
            lemma_fmul_xor_r(coef(p, 0), coef(a, k), coef(b, k));
            lemma_xor4(fmul(coef(p, 0), coef(a, k)), fmul(coef(p, 0), coef(b, k)), coef(pmulp(t, a), k - 1), coef(pmulp(t, b), k - 1));
        }
    }
}
// (c p) * q == c (p * q) == p * (c q)
pub proof fn lemma_pmulp_pscale_l(c: u16, p: Seq<u16>, q: Seq<u16>)
    ensures peq(pmulp(pscale(c, p), q), pscale(c, pmulp(p, q)))
    decreases p.len()
{
    let s = pscale(c, p);
    let l = pmulp(s, q); let r = pscale(c, pmulp(p, q));
    if p.len() == 0 {
        assert forall|k: int| coef(l, k) == coef(r, k) by { }
    } else {
        let t = ptail(p);
        assert(ptail(s) =~= pscale(c, t));
        lemma_pmulp_pscale_l(c, t, q);
        let u = pmulp(pscale(c, t), q); let v = pscale(c, pmulp(t, q));
        assert forall|k: int| coef(l, k) == coef(r, k) by {
            lemma_coef_pmulp_gen(s, q, k); lemma_coef_pmulp_gen(p, q, k);
            lemma_coef_pscale(c, pmulp(p, q), k);
            lemma_coef_pscale(c, p, 0);
            assert(coef(u, k - 1) == coef(v, k - 1));
            lemma_coef_pscale(c, pmulp(t, q), k - 1);
            lemma_fmul_assoc(c, coef(p, 0), coef(q, k));
            lemma_fmul_xor_r(c, fmul(coef(p, 0), coef(q, k)), coef(pmulp(t, q), k - 1));
        }
    }
}
pub proof fn lemma_pmulp_pscale_r(c: u16, p: Seq<u16>, q: Seq<u16>)
    ensures peq(pmulp(p, pscale(c, q)), pscale(c, pmulp(p, q)))
    decreases p.len()
{
    let s = pscale(c, q);
    let l = pmulp(p, s); let r = pscale(c, pmulp(p, q));
    if p.len() == 0 {
        assert forall|k: int| coef(l, k) == coef(r, k) by { }
    } else {
        let t = ptail(p);
        lemma_pmulp_pscale_r(c, t, q);
        let u = pmulp(t, s); let v = pscale(c, pmulp(t, q));
        assert forall|k: int| coef(l, k) == coef(r, k) by {
            lemma_coef_pmulp_gen(p, s, k); lemma_coef_pmulp_gen(p, q, k);
            lemma_coef_pscale(c, pmulp(p, q), k);
            lemma_coef_pscale(c, q, k);
            assert(coef(u, k - 1) == coef(v, k - 1));
            lemma_coef_pscale(c, pmulp(t, q), k - 1);
            let p0 = coef(p, 0); let qk = coef(q, k);
            // p0 * (c * qk) == c * (p0 * qk)
            lemma_fmul_assoc(p0, c, qk); lemma_fmul_comm(p0, c); lemma_fmul_assoc(c, p0, qk);
            lemma_fmul_xor_r(c, fmul(p0, qk), coef(pmulp(t, q), k - 1));
        }
    }
}
// (x p) * q == x (p * q) == p * (x q)
pub proof fn lemma_pmulp_pmulx_l(p: Seq<u16>, q: Seq<u16>)
    ensures peq(pmulp(pmulx(p), q), pmulx(pmulp(p, q)))
{
    let s = pmulx(p);
    let l = pmulp(s, q); let r = pmulx(pmulp(p, q));
    lemma_coef_pcons(0u16, p, 0);
    assert forall|k: int| coef(l, k) == coef(r, k) by {
        lemma_coef_pmulp_gen(s, q, k);
        lemma_coef_pmulx(pmulp(p, q), k);
        lemma_fmul_zero(coef(q, k));
        lemma_xor_basic(coef(pmulp(p, q), k - 1), 0, 0);
    }
}
pub proof fn lemma_pmulp_pmulx_r(p: Seq<u16>, q: Seq<u16>)
    ensures peq(pmulp(p, pmulx(q)), pmulx(pmulp(p, q)))
    decreases p.len()
{
    let s = pmulx(q);
    let l = pmulp(p, s); let r = pmulx(pmulp(p, q));
    if p.len() == 0 {
        assert forall|k: int| coef(l, k) == coef(r, k) by { lemma_coef_pmulx(pmulp(p, q), k); }
    } else {
        let t = ptail(p);
        lemma_pmulp_pmulx_r(t, q);
        let u = pmulp(t, s); let v = pmulx(pmulp(t, q));
        assert forall|k: int| coef(l, k) == coef(r, k) by {
            lemma_coef_pmulp_gen(p, s, k);
            lemma_coef_pmulx(pmulp(p, q), k);
            lemma_coef_pmulp_gen(p, q, k - 1);
            lemma_coef_pmulx(q, k);
            assert(coef(u, k - 1) == coef(v, k - 1));
            lemma_coef_pmulx(pmulp(t, q), k - 1);
        }
    }
}
pub proof fn lemma_pmulp_pconst_r(p: Seq<u16>, c: u16)
    ensures peq(pmulp(p, pconst(c)), pscale(c, p))
    decreases p.len()
{
    let l = pmulp(p, pconst(c)); let r = pscale(c, p);
    if p.len() == 0 {
        assert forall|k: int| coef(l, k) == coef(r, k) by { }
    } else {
        let t = ptail(p);
        lemma_pmulp_pconst_r(t, c);
        let u = pmulp(t, pconst(c)); let v = pscale(c, t);
        assert forall|k: int| coef(l, k) == coef(r, k) by {
            lemma_coef_pmulp_gen(p, pconst(c), k);
            lemma_coef_pconst(c, k);
            lemma_coef_pscale(c, p, k);
            assert(coef(u, k - 1) == coef(v, k - 1));
            lemma_coef_pscale(c, t, k - 1);
            lemma_fmul_comm(coef(p, 0), c);
            lemma_fmul_zero(coef(p, 0)); lemma_fmul_zero(c);
            if k >= 1 { lemma_coef_tail(p, k - 1); }
            lemma_xor_basic(fmul(c, coef(p, k)), 0, 0);
            lemma_xor0();
        }
    }
}
pub proof fn lemma_pmulp_pconst_l(c: u16, q: Seq<u16>)
    ensures peq(pmulp(pconst(c), q), pscale(c, q))
{
    let l = pmulp(pconst(c), q); let r = pscale(c, q);
    assert(ptail(pconst(c)).len() == 0);
    assert forall|k: int| coef(l, k) == coef(r, k) by {
        lemma_coef_pmulp_gen(pconst(c), q, k);
        lemma_coef_pscale(c, q, k);
        lemma_xor_basic(fmul(c, coef(q, k)), 0, 0);
    }
}
// p * q == q * p
pub proof fn lemma_pmulp_comm(p: Seq<u16>, q: Seq<u16>)
    ensures peq(pmulp(p, q), pmulp(q, p))
    decreases p.len()
{
    let l = pmulp(p, q); let r = pmulp(q, p);
    if p.len() == 0 {
        assert(is_zero_poly(p));
        lemma_pmulp_zero(q, p);
        assert forall|k: int| coef(l, k) == coef(r, k) by { assert(coef(r, k) == 0); }
    } else {
        let t = ptail(p);
        let p0 = coef(p, 0);
        lemma_pmulp_comm(t, q);
        let d = padd(pconst(p0), pmulx(t));
        lemma_p_decomp(p);
        lemma_peq_pmulp_r(q, p, d);
        lemma_pmulp_padd_r(q, pconst(p0), pmulx(t));
        lemma_pmulp_pconst_r(q, p0);
        lemma_pmulp_pmulx_r(q, t);
        let r1 = pmulp(q, d); let r2 = padd(pmulp(q, pconst(p0)), pmulp(q, pmulx(t)));
        let a = pmulp(q, pconst(p0)); let a2 = pscale(p0, q);
        let b = pmulp(q, pmulx(t)); let b2 = pmulx(pmulp(q, t));
        let tq = pmulp(t, q); let qt = pmulp(q, t);
        assert forall|k: int| coef(l, k) == coef(r, k) by {
            lemma_coef_pmulp_gen(p, q, k);
            assert(coef(r, k) == coef(r1, k));
            assert(coef(r1, k) == coef(r2, k));
            lemma_coef_padd(a, b, k);
            assert(coef(a, k) == coef(a2, k));
            assert(coef(b, k) == coef(b2, k));
            lemma_coef_pscale(p0, q, k);
            lemma_coef_pmulx(qt, k);
            assert(coef(tq, k - 1) == coef(qt, k - 1));
        }
    }
}
// (p * q) * r == p * (q * r)
pub proof fn lemma_pmulp_assoc(p: Seq<u16>, q: Seq<u16>, r: Seq<u16>)
    ensures peq(pmulp(pmulp(p, q), r), pmulp(p, pmulp(q, r)))
    decreases p.len()
{
    let qr = pmulp(q, r);
    let l = pmulp(pmulp(p, q), r); let rr = pmulp(p, qr);
    if p.len() == 0 {
        assert forall|k: int| coef(l, k) == coef(rr, k) by { }
    } else {
        let t = ptail(p);
        let p0 = coef(p, 0);
        let tq = pmulp(t, q);
        lemma_pmulp_assoc(t, q, r);
        lemma_pmulp_padd_l(pscale(p0, q), pmulx(tq), r);
        lemma_pmulp_pscale_l(p0, q, r);
        lemma_pmulp_pmulx_l(tq, r);
        let l2 = padd(pmulp(pscale(p0, q), r), pmulp(pmulx(tq), r));
        let a = pmulp(pscale(p0, q), r); let a2 = pscale(p0, qr);
        let b = pmulp(pmulx(tq), r); let b2 = pmulx(pmulp(tq, r));
        let c1 = pmulp(tq, r); let c2 = pmulp(t, qr);
        assert forall|k: int| coef(l, k) == coef(rr, k) by {
            assert(coef(l, k) == coef(l2, k));
            lemma_coef_padd(a, b, k);
            assert(coef(a, k) == coef(a2, k));
            assert(coef(b, k) == coef(b2, k));
            lemma_coef_pscale(p0, qr, k);
            lemma_coef_pmulx(c1, k);
            assert(coef(c1, k - 1) == coef(c2, k - 1));
            lemma_coef_pmulp_gen(p, qr, k);
        }
    }
}
// PRODUCT RULE (polynomial level): (p * q)' == p' * q + p * q'
pub proof fn lemma_product_rule_poly(p: Seq<u16>, q: Seq<u16>)
    ensures peq(pderiv(pmulp(p, q)), padd(pmulp(pderiv(p), q), pmulp(p, pderiv(q))))
    decreases p.len()
{
    let dq = pderiv(q);
    let l = pderiv(pmulp(p, q)); let r = padd(pmulp(pderiv(p), q), pmulp(p, dq));
    if p.len() == 0 {
        assert(pderiv(p) =~= pzero());
        assert forall|k: int| coef(l, k) == coef(r, k) by { }
    } else {
        let t = ptail(p); let dt = pderiv(t);
        let p0 = coef(p, 0);
        let tq = pmulp(t, q);
        lemma_product_rule_poly(t, q);
        // left: (p0 q + x tq)' = p0 q' + tq + x tq'
        lemma_pderiv_padd(pscale(p0, q), pmulx(tq));
        lemma_pderiv_pscale(p0, q);
        lemma_pderiv_pmulx(tq);
        let m1 = pderiv(pmulx(tq)); let m2 = padd(tq, pmulx(pderiv(tq)));
        let ih1 = pderiv(tq); let ih2 = padd(pmulp(dt, q), pmulp(t, dq));
        // right: p' = t + x t'
        assert(p =~= pcons(p0, t));
        lemma_pderiv_pcons(p0, t);
        let dp2 = padd(t, pmulx(dt));
        lemma_peq_pmulp_l(pderiv(p), dp2, q);
        lemma_pmulp_padd_l(t, pmulx(dt), q);
        lemma_pmulp_pmulx_l(dt, q);
        let n0 = pmulp(pderiv(p), q); let n1 = pmulp(dp2, q); let n2 = padd(tq, pmulp(pmulx(dt), q));
        let o1 = pmulp(pmulx(dt), q); let o2 = pmulx(pmulp(dt, q));
        assert forall|k: int| coef(l, k) == coef(r, k) by {
            lemma_coef_padd(pscale(p0, dq), m1, k);
            lemma_coef_pscale(p0, dq, k);
            assert(coef(m1, k) == coef(m2, k));
            lemma_coef_padd(tq, pmulx(pderiv(tq)), k);
            lemma_coef_pmulx(ih1, k);
            assert(coef(ih1, k - 1) == coef(ih2, k - 1));
            lemma_coef_padd(pmulp(dt, q), pmulp(t, dq), k - 1);
            // right
            lemma_coef_padd(n0, pmulp(p, dq), k);
            assert(coef(n0, k) == coef(n1, k));
            assert(coef(n1, k) == coef(n2, k));
            lemma_coef_padd(tq, o1, k);
            assert(coef(o1, k) == coef(o2, k));
            lemma_coef_pmulx(pmulp(dt, q), k);
            lemma_coef_pmulp_gen(p, dq, k);
            let a = fmul(p0, coef(dq, k)); let b = coef(tq, k); let c = coef(pmulp(dt, q), k - 1); let d = coef(pmulp(t, dq), k - 1);
            assert(a ^ (b ^ (c ^ d)) == (b ^ c) ^ (a ^ d)) by (bit_vector);
        }
    }
}
