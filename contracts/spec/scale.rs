use vstd::prelude::*;
use crate::vspec::gf::*;
use crate::vspec::gfth::*;
use crate::vspec::xform::*;
use crate::vspec::codec::*;
use crate::vspec::arith::*;
use crate::vspec::envelope::*;
use crate::vspec::linear::*;
// Homogeneity of the reference codes: multiplying every input symbol by a field constant multiplies every
// output symbol by the same constant.  Mirrors vspec::linear (additivity), lemma by lemma.

// product of two symbols (symbols are in Cantor-basis representation)
pub open spec fn smul(x: u16, c: u16) -> u16 { icantor(pmul(cantor(x), cantor(c))) }
pub open spec fn v_scale(a: Sv, c: u16) -> Sv { Seq::new(a.len(), |k: int| smul(a[k], c)) }
pub open spec fn vv_scale(s: Seq<Sv>, c: u16) -> Seq<Sv> { Seq::new(s.len(), |q: int| v_scale(s[q], c)) }

// ---------------------------------------------------------------- field level
pub proof fn lemma_smul_xor(a: u16, b: u16, c: u16)
    ensures smul(a ^ b, c) == smul(a, c) ^ smul(b, c)
{
    lemma_lin_xor(a, b, 0, |i: int| cb(i));
    lemma_pm_xor(cantor(a), cantor(b), cantor(c), 16);
    lemma_lin_xor(pmul(cantor(a), cantor(c)), pmul(cantor(b), cantor(c)), 0, |j: int| icb(j));
}

pub proof fn lemma_smul_zero(c: u16)
    ensures smul(0, c) == 0
{
    lemma_lin_zero(0, |i: int| cb(i));
    lemma_pm_zero(cantor(c), 16);
    lemma_lin_zero(0, |j: int| icb(j));
}

// (a * g) * cc == (a * cc) * g, stated on the partial products of the second multiplication
pub proof fn lemma_pm_commute(a: u16, g: u16, cc: u16, n: int)
    ensures pm(pmul(a, g), cc, n) == pmul(pm(a, cc, n), g)
    decreases n
{
    if n > 0 {
        // mulx(a * g) == mulx(a) * g
        lemma_pm_mulx(a, g, 16);
        assert(mulx(pmul(a, g)) == pmul(mulx(a), g));
        lemma_pm_commute(mulx(a), g, cc >> 1, n - 1);
        let t = pm(mulx(a), cc >> 1, n - 1);
        assert(pm(mulx(pmul(a, g)), cc >> 1, n - 1) == pmul(t, g));
        let sel = if cc & 1 == 1 { a } else { 0u16 };
        // right-hand side: (sel ^ t) * g == sel * g ^ t * g
        lemma_pm_xor(sel, t, g, 16);
        lemma_pm_zero(g, 16);
        assert(pm(a, cc, n) == sel ^ t);
        assert(pmul(sel, g) == (if cc & 1 == 1 { pmul(a, g) } else { 0u16 }));
        assert(pm(pmul(a, g), cc, n) == (if cc & 1 == 1 { pmul(a, g) } else { 0u16 }) ^ pm(mulx(pmul(a, g)), cc >> 1, n - 1));
    } else {
        lemma_pm_zero(g, 16);
    }
}

pub proof fn lemma_pmul_commute(a: u16, g: u16, cc: u16)
    ensures pmul(pmul(a, g), cc) == pmul(pmul(a, cc), g)
{
    lemma_pm_commute(a, g, cc, 16);
}

// multiplying by a constant commutes with multiplying by a power of the generator
pub proof fn lemma_smul_gf(b: u16, m: u16, c: u16)
    ensures smul(gf_mul_log(b, m), c) == gf_mul_log(smul(b, c), m)
{
    let g = gpow(m as nat);
    lemma_cantor_inverse(pmul(cantor(b), g));
    lemma_cantor_inverse(pmul(cantor(b), cantor(c)));
    lemma_pmul_commute(cantor(b), g, cantor(c));
}

// ---------------------------------------------------------------- vectors
pub proof fn lemma_v_xor_scale(a: Sv, b: Sv, c: u16)
    requires a.len() == b.len()
    ensures v_xor(v_scale(a, c), v_scale(b, c)) =~= v_scale(v_xor(a, b), c)
{
    assert forall|k: int| 0 <= k < a.len() implies smul(a[k], c) ^ smul(b[k], c) == smul((a[k] ^ b[k]) as u16, c) by {
        lemma_smul_xor(a[k], b[k], c);
    }
}

pub proof fn lemma_v_muladd_scale(a: Sv, b: Sv, m: u16, c: u16)
    requires a.len() == b.len()
    ensures v_muladd(v_scale(a, c), v_scale(b, c), m) =~= v_scale(v_muladd(a, b, m), c)
{
    assert forall|k: int| 0 <= k < a.len() implies
        smul(a[k], c) ^ gf_mul_log(smul(b[k], c), m) == smul((a[k] ^ gf_mul_log(b[k], m)) as u16, c) by {
        lemma_smul_gf(b[k], m, c);
        lemma_smul_xor(a[k], gf_mul_log(b[k], m), c);
    }
}

pub proof fn lemma_v_zero_scale(len: nat, c: u16)
    ensures v_scale(v_zero(len), c) =~= v_zero(len)
{
    lemma_smul_zero(c);
}

// the four butterfly halves are homogeneous
pub proof fn lemma_bf_scale(a: Sv, b: Sv, m: u16, c: u16)
    requires a.len() == b.len()
    ensures
        fft_a(v_scale(a, c), v_scale(b, c), m) =~= v_scale(fft_a(a, b, m), c),
        fft_b(v_scale(a, c), v_scale(b, c), m) =~= v_scale(fft_b(a, b, m), c),
        ifft_a(v_scale(a, c), v_scale(b, c), m) =~= v_scale(ifft_a(a, b, m), c),
        ifft_b(v_scale(a, c), v_scale(b, c), m) =~= v_scale(ifft_b(a, b, m), c),
{
    lemma_v_muladd_scale(a, b, m, c);
    let fa = fft_a(a, b, m);
    lemma_v_xor_scale(b, fa, c);
    lemma_v_xor_scale(b, a, c);
    let ib = ifft_b(a, b, m);
    lemma_v_muladd_scale(a, ib, m, c);
}

pub proof fn lemma_vv_scale_rect(s: Seq<Sv>, c: u16, n: nat)
    requires rect(s, n)
    ensures rect(vv_scale(s, c), n), vv_scale(s, c).len() == s.len()
{
}

pub proof fn lemma_vv_xor_scale(a: Seq<Sv>, b: Seq<Sv>, c: u16, n: nat)
    requires a.len() == b.len(), rect(a, n), rect(b, n)
    ensures vv_xor(vv_scale(a, c), vv_scale(b, c)) =~= vv_scale(vv_xor(a, b), c)
{
    assert forall|q: int| 0 <= q < a.len() implies #[trigger] vv_xor(vv_scale(a, c), vv_scale(b, c))[q] == vv_scale(vv_xor(a, b), c)[q] by {
        lemma_v_xor_scale(a[q], b[q], c);
    }
}

// ---------------------------------------------------------------- layers
pub proof fn lemma_fft_layer_scale(s: Seq<Sv>, c: u16, dist: int, delta: int, skew: Seq<u16>, n: nat)
    requires rect(s, n), dist >= 1, (s.len() as int) % (2 * dist) == 0
    ensures
        fft_layer(vv_scale(s, c), dist, delta, skew) =~= vv_scale(fft_layer(s, dist, delta, skew), c),
        rect(fft_layer(s, dist, delta, skew), n),
        fft_layer(s, dist, delta, skew).len() == s.len(),
{
    let sc = vv_scale(s, c);
    let l = fft_layer(sc, dist, delta, skew);
    let r_ = vv_scale(fft_layer(s, dist, delta, skew), c);
    assert forall|q: int| 0 <= q < s.len() implies #[trigger] l[q] == r_[q]
        && fft_layer(s, dist, delta, skew)[q].len() == n by {
        lemma_partner(q, s.len() as int, dist);
        let r = bstart(q, 2 * dist);
        let m = skew[r + dist + delta - 1];
        if q - r < dist { lemma_bf_scale(s[q], s[q + dist], m, c); }
        else { lemma_bf_scale(s[q - dist], s[q], m, c); }
    }
}

pub proof fn lemma_ifft_layer_scale(s: Seq<Sv>, c: u16, dist: int, delta: int, skew: Seq<u16>, n: nat)
    requires rect(s, n), dist >= 1, (s.len() as int) % (2 * dist) == 0
    ensures
        ifft_layer(vv_scale(s, c), dist, delta, skew) =~= vv_scale(ifft_layer(s, dist, delta, skew), c),
        rect(ifft_layer(s, dist, delta, skew), n),
        ifft_layer(s, dist, delta, skew).len() == s.len(),
{
    let sc = vv_scale(s, c);
    let l = ifft_layer(sc, dist, delta, skew);
    let r_ = vv_scale(ifft_layer(s, dist, delta, skew), c);
    assert forall|q: int| 0 <= q < s.len() implies #[trigger] l[q] == r_[q]
        && ifft_layer(s, dist, delta, skew)[q].len() == n by {
        lemma_partner(q, s.len() as int, dist);
        let r = bstart(q, 2 * dist);
        let m = skew[r + dist + delta - 1];
        if q - r < dist { lemma_bf_scale(s[q], s[q + dist], m, c); }
        else { lemma_bf_scale(s[q - dist], s[q], m, c); }
    }
}

// FFT (layers dist, dist/2, ..., 1) is homogeneous
pub proof fn lemma_fft_from_scale(s: Seq<Sv>, c: u16, dist: int, delta: int, skew: Seq<u16>, n: nat)
    requires rect(s, n), dist < 1 || (is_pow2(dist) && (s.len() as int) % (2 * dist) == 0)
    ensures
        fft_from(vv_scale(s, c), dist, delta, skew) == vv_scale(fft_from(s, dist, delta, skew), c),
        rect(fft_from(s, dist, delta, skew), n),
        fft_from(s, dist, delta, skew).len() == s.len(),
    decreases dist
{
    if dist >= 1 {
        lemma_fft_layer_scale(s, c, dist, delta, skew, n);
        let s1 = fft_layer(s, dist, delta, skew);
        if dist >= 2 {
            lemma_pow2_half(dist);
            assert(2 * (dist / 2) == dist);
            lemma_half_block(s.len() as int, dist / 2);
        }
        lemma_fft_from_scale(s1, c, dist / 2, delta, skew, n);
    }
}

// IFFT (layers 1, 2, ..., dist/2) is homogeneous
pub proof fn lemma_ifft_upto_scale(s: Seq<Sv>, c: u16, dist: int, delta: int, skew: Seq<u16>, n: nat)
    requires rect(s, n), dist <= 1 || (is_pow2(dist) && (s.len() as int) % dist == 0)
    ensures
        ifft_upto(vv_scale(s, c), dist, delta, skew) == vv_scale(ifft_upto(s, dist, delta, skew), c),
        rect(ifft_upto(s, dist, delta, skew), n),
        ifft_upto(s, dist, delta, skew).len() == s.len(),
    decreases dist
{
    if dist > 1 {
        lemma_pow2_half(dist);
        assert(2 * (dist / 2) == dist);
        // order matters for stability: 4 * (dist / 4) == dist is the precondition of lemma_half_block (the aarch64 view found the
        // old order - lemma call first - to depend on solver luck)
        if dist / 2 > 1 { lemma_pow2_half(dist / 2); assert(2 * (dist / 4) == dist / 2); assert(4 * (dist / 4) == dist); lemma_half_block(s.len() as int, dist / 4); }
        lemma_ifft_upto_scale(s, c, dist / 2, delta, skew, n);
        let s1 = ifft_upto(s, dist / 2, delta, skew);
        lemma_ifft_layer_scale(s1, c, dist / 2, delta, skew, n);
    }
}

pub proof fn lemma_fft_ref_scale(s: Seq<Sv>, c: u16, delta: int, skew: Seq<u16>, n: nat)
    requires rect(s, n), is_pow2(s.len() as int)
    ensures
        fft_ref(vv_scale(s, c), delta, skew) == vv_scale(fft_ref(s, delta, skew), c),
        rect(fft_ref(s, delta, skew), n), fft_ref(s, delta, skew).len() == s.len(),
{
    let len = s.len() as int;
    lemma_vv_scale_rect(s, c, n);
    if len >= 2 { lemma_pow2_half(len); assert(2 * (len / 2) == len); lemma_mult(1, len); }
    lemma_fft_from_scale(s, c, len / 2, delta, skew, n);
}

pub proof fn lemma_ifft_ref_scale(s: Seq<Sv>, c: u16, delta: int, skew: Seq<u16>, n: nat)
    requires rect(s, n), is_pow2(s.len() as int)
    ensures
        ifft_ref(vv_scale(s, c), delta, skew) == vv_scale(ifft_ref(s, delta, skew), c),
        rect(ifft_ref(s, delta, skew), n), ifft_ref(s, delta, skew).len() == s.len(),
{
    let len = s.len() as int;
    lemma_vv_scale_rect(s, c, n);
    lemma_mult(1, len);
    lemma_ifft_upto_scale(s, c, len, delta, skew, n);
}

// ---------------------------------------------------------------- codec pieces
pub proof fn lemma_chunk_scale(w: Seq<Sv>, c: u16, m: int, start: int, n: nat)
    requires rect(w, n), 0 <= start, m >= 0, start + m <= w.len()
    ensures
        chunk_at(vv_scale(w, c), m, start) =~= vv_scale(chunk_at(w, m, start), c),
        rect(chunk_at(w, m, start), n), chunk_at(w, m, start).len() == m,
{
}

pub proof fn lemma_padded_scale(o: Seq<Sv>, c: u16, total: int, len: nat)
    requires rect(o, len), total >= o.len()
    ensures
        padded(vv_scale(o, c), total, len) =~= vv_scale(padded(o, total, len), c),
        rect(padded(o, total, len), len), padded(o, total, len).len() == total,
{
    lemma_v_zero_scale(len, c);
    assert forall|i: int| 0 <= i < total implies #[trigger] padded(vv_scale(o, c), total, len)[i] == vv_scale(padded(o, total, len), c)[i] by {
        if i < o.len() { } else { assert(v_scale(v_zero(len), c) == v_zero(len)); }
    }
}

pub proof fn lemma_enc_high_acc_scale(w: Seq<Sv>, c: u16, m: int, end: int, skew: Seq<u16>, n: nat)
    requires rect(w, n), is_pow2(m), m <= end <= w.len(), end % m == 0
    ensures
        enc_high_acc(vv_scale(w, c), m, end, skew) == vv_scale(enc_high_acc(w, m, end, skew), c),
        rect(enc_high_acc(w, m, end, skew), n),
        enc_high_acc(w, m, end, skew).len() == m,
    decreases end
{
    lemma_pow2_basic(m);
    if end <= m {
        lemma_chunk_scale(w, c, m, 0, n);
        lemma_ifft_ref_scale(chunk_at(w, m, 0), c, m, skew, n);
    } else {
        lemma_mult(1, m); lemma_mult_step(m, end, m);
        lemma_mod_sub(end, m);
        lemma_enc_high_acc_scale(w, c, m, end - m, skew, n);
        lemma_chunk_scale(w, c, m, end - m, n);
        let c1 = chunk_at(w, m, end - m);
        lemma_ifft_ref_scale(c1, c, end, skew, n);
        let a1 = enc_high_acc(w, m, end - m, skew);
        let f1 = ifft_ref(c1, end, skew);
        lemma_vv_xor_scale(a1, f1, c, n);
        lemma_vv_xor_rect(a1, f1, n);
    }
}

// homogeneity of the high-rate reference code
pub proof fn lemma_enc_high_ref_scale(o: Seq<Sv>, c: u16, rc: int, len: nat, skew: Seq<u16>)
    requires rect(o, len), is_pow2(np2(rc)),
        ({ let m = np2(rc); let wc = ((o.len() + m - 1) / m) * m; wc % m == 0 && wc >= m && wc >= o.len() })
    ensures enc_high_ref(vv_scale(o, c), rc, len, skew) == vv_scale(enc_high_ref(o, rc, len, skew), c)
{
    let m = np2(rc); let wc = ((o.len() + m - 1) / m) * m;
    lemma_padded_scale(o, c, wc, len);
    let w = padded(o, wc, len);
    lemma_enc_high_acc_scale(w, c, m, wc, skew, len);
    lemma_fft_ref_scale(enc_high_acc(w, m, wc, skew), c, 0, skew, len);
}

// homogeneity of the low-rate reference code
pub proof fn lemma_enc_low_ref_scale(o: Seq<Sv>, c: u16, rc: int, len: nat, skew: Seq<u16>)
    requires rect(o, len), is_pow2(np2(o.len() as int)), np2(o.len() as int) >= o.len(), rc >= 0
    ensures enc_low_ref(vv_scale(o, c), rc, len, skew) =~= vv_scale(enc_low_ref(o, rc, len, skew), c)
{
    let m = np2(o.len() as int);
    lemma_pow2_basic(m);
    lemma_padded_scale(o, c, m, len);
    let p = padded(o, m, len);
    lemma_ifft_ref_scale(p, c, 0, skew, len);
    let c0 = enc_low_c0(o, len, skew);
    assert(enc_low_c0(vv_scale(o, c), len, skew) == vv_scale(c0, c));
    assert forall|j: int| 0 <= j < rc implies #[trigger] enc_low_ref(vv_scale(o, c), rc, len, skew)[j]
        == vv_scale(enc_low_ref(o, rc, len, skew), c)[j] by {
        lemma_bstart_le(j, m);
        lemma_fft_ref_scale(c0, c, bstart(j, m) + m, skew, len);
    }
}

// Together with the already proved `encode == enc_high_ref(orig_sv)` / `encode == enc_low_ref(orig_sv)` (the real
// encoders compute exactly the reference codes), lemma_enc_high_ref_scale and lemma_enc_low_ref_scale are the
// "scalar multiples" clause of linearity: encode(c * orig) == c * encode(orig) for every field constant c, where
// c * x is the GF(2^16) product `smul`.  With vspec::linear (additivity, zero to zero) the encoders are
// GF(2^16)-linear maps.
