use vstd::prelude::*;
use crate::vspec::gf::*;
use crate::vspec::field::*;
use crate::vspec::lch::*;
use crate::vspec::poly::*;
// Bridge between the LCH basis (functions shat / X / eval_lch of vspec::lch) and monomial-basis polynomials (vspec::poly):
//   spoly(m)   polynomial of shat(m, .):  degree exactly 2^m
//   xpoly(j)   polynomial of X(j, .):     degree exactly j
//   lchpoly(c) polynomial of eval_lch(c, .): degree < c.len()
// hence an LCH expansion with n coefficients is determined by its values at any n distinct points, and may be replaced by
// ANY polynomial of degree < n taking the same values there (lemma_lch_unique, lemma_lch_interp_any).
// Last block: Cantor-basis facts (normalisers are 1, spoly has coefficients in {0, 1}, its derivative is the constant 1).

// ---------------------------------------------------------------- spoly
pub open spec fn spoly(m: nat) -> Seq<u16>
    decreases m
{
    if m == 0 { plin(0u16) } else {
        let s = spoly((m - 1) as nat);
        pscale(finv(nrm((m - 1) as nat)), padd(pmulp(s, s), s))
    }
}
pub proof fn lemma_spoly_eval(m: nat, x: u16)
    ensures peval(spoly(m), x) == shat(m, x)
    decreases m
{
    if m == 0 {
        lemma_peval_plin(0u16, x);
        lemma_xor_basic(x, 0, 0);
    } else {
        let k = (m - 1) as nat;
        let s = spoly(k);
        let c = finv(nrm(k));
        let S = shat(k, x);
        lemma_spoly_eval(k, x);
        lemma_peval_pscale(c, padd(pmulp(s, s), s), x);
        lemma_peval_padd(pmulp(s, s), s, x);
        lemma_peval_pmulp(s, s, x);
        lemma_shat_unfold(k, x);
        lemma_fmul_xor_r(S, S, one());
        lemma_fmul_one(S);
        assert(fas(S) == fmul(S, S) ^ S);
        lemma_fmul_comm(c, fas(S));
    }
}
pub proof fn lemma_spoly_deg(m: nat)
    ensures deg_lt(spoly(m), p2i(m) + 1), p2i(m) >= 1
    decreases m
{
    if m == 0 {
        lemma_deg_pconst(0u16);
    } else {
        let k = (m - 1) as nat;
        let s = spoly(k);
        let h = p2i(k);
        lemma_spoly_deg(k);
        lemma_deg_pmulp(s, s, h + 1, h + 1);
        lemma_deg_mono(s, h + 1, 2 * h + 1);
        lemma_deg_padd(pmulp(s, s), s, 2 * h + 1);
        lemma_deg_pscale(finv(nrm(k)), padd(pmulp(s, s), s), 2 * h + 1);
    }
}
// the leading coefficient: shat(m, .) has degree exactly 2^m
pub proof fn lemma_spoly_lead(m: nat)
    requires m <= 15
    ensures coef(spoly(m), p2i(m)) != 0
    decreases m
{
    lemma_one();
    if m == 0 {
        assert(coef(spoly(0), 1) == one());
    } else {
        let k = (m - 1) as nat;
        let s = spoly(k);
        let h = p2i(k);
        let c = finv(nrm(k));
        lemma_spoly_deg(k);
        lemma_spoly_lead(k);
        let lc = coef(s, h);
        lemma_lead_pmulp(s, s, h + 1, h + 1);
        lemma_fmul_nz(lc, lc);
        assert(coef(s, 2 * h) == 0);
        lemma_coef_padd(pmulp(s, s), s, 2 * h);
        lemma_xor_basic(fmul(lc, lc), 0, 0);
        lemma_coef_pscale(c, padd(pmulp(s, s), s), 2 * h);
        lemma_nrm_nz(k);
        lemma_finv(nrm(k));
        lemma_fmul_nz(c, fmul(lc, lc));
    }
}

// ---------------------------------------------------------------- xpoly
pub open spec fn xfac(j: u16, i: nat) -> Seq<u16> { if bit(j, i as int) { spoly(i) } else { pconst(one()) } }
pub open spec fn xpb(j: u16, nb: nat) -> Seq<u16>
    decreases nb
{
    if nb == 0 { pconst(one()) } else { pmulp(xpb(j, (nb - 1) as nat), xfac(j, (nb - 1) as nat)) }
}
pub open spec fn xpoly(j: u16) -> Seq<u16> { xpb(j, 16) }
// value of the low nb bits of j
pub open spec fn lowbits(j: u16, nb: nat) -> int
    decreases nb
{
    if nb == 0 { 0 } else { lowbits(j, (nb - 1) as nat) + if bit(j, nb - 1) { p2i((nb - 1) as nat) } else { 0 } }
}
pub proof fn lemma_lowbits(j: u16, nb: nat)
    requires nb <= 16
    ensures lowbits(j, nb) == ((j as u32) & (((1u32 << (nb as u32)) - 1) as u32)) as int, 0 <= lowbits(j, nb)
    decreases nb
{
    let n32 = nb as u32;
    if nb == 0 {
        assert(((j as u32) & (((1u32 << 0u32) - 1) as u32)) == 0u32) by (bit_vector);
    } else {
        lemma_lowbits(j, (nb - 1) as nat);
        lemma_p2i((nb - 1) as nat);
        let i16 = (nb - 1) as u16;
        let i32 = (nb - 1) as u32;
        assert(((j as u32) & (((1u32 << ((i32 + 1) as u32)) - 1) as u32))
            == ((j as u32) & (((1u32 << i32) - 1) as u32)) + (if (j >> i16) & 1 == 1 { 1u32 << i32 } else { 0u32 })) by (bit_vector)
            requires i32 <= 15, i16 as u32 == i32;
    }
}
pub proof fn lemma_lowbits16(j: u16)
    ensures lowbits(j, 16) == j as int
{
    lemma_lowbits(j, 16);
    assert(((j as u32) & (((1u32 << 16u32) - 1) as u32)) == j as u32) by (bit_vector);
}
pub proof fn lemma_xfac_eval(j: u16, i: nat, x: u16)
    ensures peval(xfac(j, i), x) == if bit(j, i as int) { shat(i, x) } else { one() }
{
    lemma_spoly_eval(i, x);
    lemma_peval_pconst(one(), x);
}
pub proof fn lemma_xpb_eval(j: u16, nb: nat, x: u16)
    ensures peval(xpb(j, nb), x) == xb(j, x, nb)
    decreases nb
{
    if nb == 0 {
        lemma_peval_pconst(one(), x);
    } else {
        let i = (nb - 1) as nat;
        lemma_xpb_eval(j, i, x);
        lemma_xfac_eval(j, i, x);
        lemma_peval_pmulp(xpb(j, i), xfac(j, i), x);
    }
}
pub proof fn lemma_xpb_deg(j: u16, nb: nat)
    requires nb <= 16
    ensures deg_lt(xpb(j, nb), lowbits(j, nb) + 1), coef(xpb(j, nb), lowbits(j, nb)) != 0, lowbits(j, nb) >= 0
    decreases nb
{
    lemma_one();
    if nb == 0 {
        lemma_deg_pconst(one());
    } else {
        let i = (nb - 1) as nat;
        let a = xpb(j, i); let f = xfac(j, i);
        let l = lowbits(j, i);
        let e = if bit(j, i as int) { p2i(i) } else { 0 };
        lemma_xpb_deg(j, i);
        if bit(j, i as int) { lemma_spoly_deg(i); lemma_spoly_lead(i); } else { lemma_deg_pconst(one()); }
        assert(deg_lt(f, e + 1) && coef(f, e) != 0 && e >= 0);
        lemma_deg_pmulp(a, f, l + 1, e + 1);
        lemma_lead_pmulp(a, f, l + 1, e + 1);
        lemma_fmul_nz(coef(a, l), coef(f, e));
    }
}
// X(j, .) is a polynomial of degree exactly j
pub proof fn lemma_xpoly(j: u16)
    ensures
        forall|x: u16| #[trigger] peval(xpoly(j), x) == X(j, x),
        deg_lt(xpoly(j), j as int + 1),
        coef(xpoly(j), j as int) != 0,
{
    assert forall|x: u16| #[trigger] peval(xpoly(j), x) == X(j, x) by { lemma_xpb_eval(j, 16, x); }
    lemma_xpb_deg(j, 16);
    lemma_lowbits16(j);
}
pub proof fn lemma_xpoly_eval(j: u16, x: u16)
    ensures peval(xpoly(j), x) == X(j, x)
{
    lemma_xpb_eval(j, 16, x);
}

// ---------------------------------------------------------------- lchpoly
pub open spec fn lchp(c: Seq<u16>, n: int) -> Seq<u16>
    decreases n
{
    if n <= 0 { pzero() } else { padd(lchp(c, n - 1), pscale(c[n - 1], xpoly((n - 1) as u16))) }
}
pub open spec fn lchpoly(c: Seq<u16>) -> Seq<u16> { lchp(c, c.len() as int) }

pub proof fn lemma_lchp_eval(c: Seq<u16>, n: int, x: u16)
    ensures peval(lchp(c, n), x) == eval_upto(c, x, n)
    decreases n
{
    if n > 0 {
        let t = pscale(c[n - 1], xpoly((n - 1) as u16));
        lemma_lchp_eval(c, n - 1, x);
        lemma_peval_padd(lchp(c, n - 1), t, x);
        lemma_peval_pscale(c[n - 1], xpoly((n - 1) as u16), x);
        lemma_xpoly_eval((n - 1) as u16, x);
    }
}
pub proof fn lemma_lchp_deg(c: Seq<u16>, n: int)
    requires n <= 65536
    ensures deg_lt(lchp(c, n), if n >= 0 { n } else { 0 })
    decreases n
{
    if n > 0 {
        let j = (n - 1) as u16;
        lemma_lchp_deg(c, n - 1);
        lemma_deg_mono(lchp(c, n - 1), n - 1, n);
        lemma_xpoly(j);
        lemma_deg_pscale(c[n - 1], xpoly(j), n);
        lemma_deg_padd(lchp(c, n - 1), pscale(c[n - 1], xpoly(j)), n);
    }
}
// top coefficient of a partial LCH sum: c[n-1] times the (non-zero) leading coefficient of X_{n-1}
pub proof fn lemma_lchp_lead(c: Seq<u16>, n: int)
    requires 1 <= n <= 65536
    ensures coef(lchp(c, n), n - 1) == fmul(c[n - 1], coef(xpoly((n - 1) as u16), n - 1)), coef(xpoly((n - 1) as u16), n - 1) != 0
{
    let j = (n - 1) as u16;
    lemma_lchp_deg(c, n - 1);
    lemma_xpoly(j);
    lemma_coef_padd(lchp(c, n - 1), pscale(c[n - 1], xpoly(j)), n - 1);
    lemma_coef_pscale(c[n - 1], xpoly(j), n - 1);
    assert(coef(lchp(c, n - 1), n - 1) == 0);
    lemma_xor_basic(fmul(c[n - 1], coef(xpoly(j), n - 1)), 0, 0);
}
// eval_lch(c, .) is a polynomial of degree < c.len()
pub proof fn lemma_lchpoly(c: Seq<u16>)
    requires c.len() <= 65536
    ensures
        forall|x: u16| #[trigger] peval(lchpoly(c), x) == eval_lch(c, x),
        deg_lt(lchpoly(c), c.len() as int),
{
    assert forall|x: u16| #[trigger] peval(lchpoly(c), x) == eval_lch(c, x) by { lemma_lchp_eval(c, c.len() as int, x); }
    lemma_lchp_deg(c, c.len() as int);
}
pub proof fn lemma_lchpoly_eval(c: Seq<u16>, x: u16)
    ensures peval(lchpoly(c), x) == eval_lch(c, x)
{
    lemma_lchp_eval(c, c.len() as int, x);
}

// ---------------------------------------------------------------- uniqueness
// two LCH expansions with n coefficients that agree at n distinct points agree everywhere
pub proof fn lemma_lch_unique(c: Seq<u16>, d: Seq<u16>, pts: Seq<u16>, x: u16)
    requires
        c.len() == pts.len(), d.len() == pts.len(),
        pts.no_duplicates(),
        forall|i: int| 0 <= i < pts.len() ==> eval_lch(c, #[trigger] pts[i]) == eval_lch(d, pts[i]),
    ensures eval_lch(c, x) == eval_lch(d, x)
{
    lemma_distinct_len(pts);
    lemma_lchpoly(c); lemma_lchpoly(d);
    let p = lchpoly(c); let q = lchpoly(d);
    assert forall|i: int| 0 <= i < pts.len() implies peval(p, #[trigger] pts[i]) == peval(q, pts[i]) by {
        lemma_lchpoly_eval(c, pts[i]); lemma_lchpoly_eval(d, pts[i]);
    }
    lemma_interp_unique_at(p, q, pts, x);
    lemma_lchpoly_eval(c, x); lemma_lchpoly_eval(d, x);
}
// any polynomial g of degree < n that agrees with eval_lch(c, .) at n distinct points IS eval_lch(c, .)
pub proof fn lemma_lch_interp_any(c: Seq<u16>, g: Seq<u16>, pts: Seq<u16>, x: u16)
    requires
        c.len() == pts.len(),
        deg_lt(g, pts.len() as int),
        pts.no_duplicates(),
        forall|i: int| 0 <= i < pts.len() ==> peval(g, #[trigger] pts[i]) == eval_lch(c, pts[i]),
    ensures peval(g, x) == eval_lch(c, x), peq(g, lchpoly(c))
{
    lemma_distinct_len(pts);
    lemma_lchpoly(c);
    let p = lchpoly(c);
    assert forall|i: int| 0 <= i < pts.len() implies peval(g, #[trigger] pts[i]) == peval(p, pts[i]) by {
        lemma_lchpoly_eval(c, pts[i]);
    }
    lemma_interp_unique(g, p, pts);
    lemma_interp_unique_at(g, p, pts, x);
    lemma_lchpoly_eval(c, x);
}
// the X_j are linearly independent: equal polynomials have equal LCH coefficients
pub proof fn lemma_lchp_inj(c: Seq<u16>, d: Seq<u16>, n: int)
    requires 0 <= n <= 65536, peq(lchp(c, n), lchp(d, n))
    ensures forall|j: int| 0 <= j < n ==> c[j] == d[j]
    decreases n
{
    if n > 0 {
        let j = (n - 1) as u16;
        let xp = xpoly(j);
        let lc = coef(xp, n - 1);
        lemma_lchp_lead(c, n); lemma_lchp_lead(d, n);
        assert(coef(lchp(c, n), n - 1) == coef(lchp(d, n), n - 1));
        lemma_fmul_cancel(c[n - 1], d[n - 1], lc);
        let t = pscale(c[n - 1], xp);
        let c1 = lchp(c, n - 1); let d1 = lchp(d, n - 1);
        assert forall|i: int| coef(c1, i) == coef(d1, i) by {
            lemma_coef_padd(c1, t, i);
            lemma_coef_padd(d1, t, i);
            assert(coef(lchp(c, n), i) == coef(lchp(d, n), i));
            let u = coef(c1, i); let v = coef(d1, i); let w = coef(t, i);
            assert(u ^ w == v ^ w ==> u == v) by (bit_vector);
        }
        lemma_lchp_inj(c, d, n - 1);
    }
}
// ... so n values at distinct points determine the n LCH coefficients
pub proof fn lemma_lch_coeffs_unique(c: Seq<u16>, d: Seq<u16>, pts: Seq<u16>)
    requires
        c.len() == pts.len(), d.len() == pts.len(),
        pts.no_duplicates(),
        forall|i: int| 0 <= i < pts.len() ==> eval_lch(c, #[trigger] pts[i]) == eval_lch(d, pts[i]),
    ensures c == d
{
    lemma_distinct_len(pts);
    lemma_lchpoly(c); lemma_lchpoly(d);
    let p = lchpoly(c); let q = lchpoly(d);
    assert forall|i: int| 0 <= i < pts.len() implies peval(p, #[trigger] pts[i]) == peval(q, pts[i]) by {
        lemma_lchpoly_eval(c, pts[i]); lemma_lchpoly_eval(d, pts[i]);
    }
    lemma_interp_unique(p, q, pts);
    lemma_lchp_inj(c, d, c.len() as int);
    assert(c =~= d);
}

// ---------------------------------------------------------------- derivative of spoly, general form
pub proof fn lemma_spoly_deriv_step(m: nat, x: u16)
    ensures peval(pderiv(spoly(m + 1)), x) == fmul(finv(nrm(m)), peval(pderiv(spoly(m)), x))
{
    let s = spoly(m);
    lemma_peval_pderiv_pscale(finv(nrm(m)), padd(pmulp(s, s), s), x);
    lemma_peval_pderiv_padd(pmulp(s, s), s, x);
    lemma_pderiv_square(s, x);
    lemma_xor_basic(peval(pderiv(s), x), 0, 0);
}
pub proof fn lemma_spoly0_deriv(x: u16)
    ensures peval(pderiv(spoly(0)), x) == one()
{
    assert(pderiv(spoly(0)) =~= pconst(one()));
    lemma_peval_pconst(one(), x);
}

// ---------------------------------------------------------------- Cantor basis: v_i^2 + v_i = v_{i-1} for the basis vectors v_i = symbol 2^i
pub proof fn lemma_cantor_ground()
    ensures forall|i: nat| 1 <= i <= 15 ==> #[trigger] fas(p2(i)) == p2((i - 1) as nat), fas(p2(0)) == 0
{
    assert(fas(p2(0)) == 0) by (compute_only);
    assert(fas(p2(1)) == p2(0)) by (compute_only);
    assert(fas(p2(2)) == p2(1)) by (compute_only);
    assert(fas(p2(3)) == p2(2)) by (compute_only);
    assert(fas(p2(4)) == p2(3)) by (compute_only);
    assert(fas(p2(5)) == p2(4)) by (compute_only);
    assert(fas(p2(6)) == p2(5)) by (compute_only);
    assert(fas(p2(7)) == p2(6)) by (compute_only);
    assert(fas(p2(8)) == p2(7)) by (compute_only);
    assert(fas(p2(9)) == p2(8)) by (compute_only);
    assert(fas(p2(10)) == p2(9)) by (compute_only);
    assert(fas(p2(11)) == p2(10)) by (compute_only);
    assert(fas(p2(12)) == p2(11)) by (compute_only);
    assert(fas(p2(13)) == p2(12)) by (compute_only);
    assert(fas(p2(14)) == p2(13)) by (compute_only);
    assert(fas(p2(15)) == p2(14)) by (compute_only);
}
pub proof fn lemma_cantor_sym(i: nat)
    requires 1 <= i <= 15
    ensures fmul(p2(i), p2(i)) ^ p2(i) == p2((i - 1) as nat)
{
    lemma_cantor_ground();
    assert(fas(p2(i)) == p2((i - 1) as nat));
    lemma_fmul_xor_r(p2(i), p2(i), one());
    lemma_fmul_one(p2(i));
}
pub proof fn lemma_finv_one()
    ensures finv(one()) == one()
{
    lemma_one();
    lemma_finv(one());
    lemma_fmul_one(finv(one()));
}
// with the Cantor basis the subspace polynomials map basis vectors to basis vectors ...
pub proof fn lemma_shat_p2(m: nat, b: nat)
    requires m <= b <= 15
    ensures shat(m, p2(b)) == p2((b - m) as nat)
    decreases m
{
    if m > 0 {
        let k = (m - 1) as nat;
        lemma_cantor_ground();
        lemma_one();
        assert(p2(0) == 1u16) by (compute_only);
        lemma_shat_p2(k, b);
        lemma_shat_p2(k, m);
        assert(fas(p2(1)) == p2(0));
        assert(nrm(k) == one());
        lemma_shat_unfold(k, p2(b));
        lemma_finv_one();
        let t = p2((b - k) as nat);
        assert(fas(t) == p2(((b - k) - 1) as nat));
        lemma_fmul_one(fas(t));
    }
}
// ... and all normalisers are 1
pub proof fn lemma_nrm_one(m: nat)
    requires m < 15
    ensures nrm(m) == one(), finv(nrm(m)) == one()
{
    lemma_cantor_ground();
    lemma_one();
    assert(p2(0) == 1u16) by (compute_only);
    lemma_shat_p2(m, m + 1);
    assert(fas(p2(1)) == p2(0));
    lemma_finv_one();
}
pub proof fn lemma_shat_plain(m: nat, x: u16)
    requires m < 15
    ensures shat(m + 1, x) == fas(shat(m, x))
{
    lemma_nrm_one(m);
    lemma_shat_unfold(m, x);
    lemma_fmul_one(fas(shat(m, x)));
}
// coefficients in the prime field {0, 1}
pub open spec fn is_bin(p: Seq<u16>) -> bool { forall|i: int| #[trigger] coef(p, i) == 0 || coef(p, i) == one() }
pub proof fn lemma_bin_padd(p: Seq<u16>, q: Seq<u16>)
    requires is_bin(p), is_bin(q)
    ensures is_bin(padd(p, q))
{
    lemma_one();
    assert forall|i: int| #[trigger] coef(padd(p, q), i) == 0 || coef(padd(p, q), i) == one() by {
        lemma_coef_padd(p, q, i);
        assert(coef(p, i) == 0 || coef(p, i) == one());
        assert(coef(q, i) == 0 || coef(q, i) == one());
        assert(0u16 ^ 0u16 == 0u16 && 0u16 ^ 1u16 == 1u16 && 1u16 ^ 0u16 == 1u16 && 1u16 ^ 1u16 == 0u16) by (bit_vector);
    }
}
pub proof fn lemma_bin_pscale(c: u16, p: Seq<u16>)
    requires is_bin(p), c == 0 || c == one()
    ensures is_bin(pscale(c, p))
{
    assert forall|i: int| #[trigger] coef(pscale(c, p), i) == 0 || coef(pscale(c, p), i) == one() by {
        lemma_coef_pscale(c, p, i);
        assert(coef(p, i) == 0 || coef(p, i) == one());
        lemma_fmul_zero(c); lemma_fmul_zero(coef(p, i)); lemma_fmul_one(one());
    }
}
pub proof fn lemma_bin_pmulx(p: Seq<u16>)
    requires is_bin(p)
    ensures is_bin(pmulx(p))
{
    assert forall|i: int| #[trigger] coef(pmulx(p), i) == 0 || coef(pmulx(p), i) == one() by {
        lemma_coef_pmulx(p, i);
        assert(coef(p, i - 1) == 0 || coef(p, i - 1) == one());
    }
}
pub proof fn lemma_bin_pmulp(p: Seq<u16>, q: Seq<u16>)
    requires is_bin(p), is_bin(q)
    ensures is_bin(pmulp(p, q))
    decreases p.len()
{
    if p.len() == 0 {
        assert forall|i: int| #[trigger] coef(pmulp(p, q), i) == 0 || coef(pmulp(p, q), i) == one() by { }
    } else {
        let t = ptail(p);
        assert forall|i: int| #[trigger] coef(t, i) == 0 || coef(t, i) == one() by {
            if i >= 0 { lemma_coef_tail(p, i); assert(coef(p, i + 1) == 0 || coef(p, i + 1) == one()); }
        }
        lemma_bin_pmulp(t, q);
        assert(coef(p, 0) == 0 || coef(p, 0) == one());
        lemma_bin_pscale(p[0], q);
        lemma_bin_pmulx(pmulp(t, q));
        lemma_bin_padd(pscale(p[0], q), pmulx(pmulp(t, q)));
    }
}
// spoly(m) has all its coefficients in {0, 1}
pub proof fn lemma_spoly_bin(m: nat)
    requires m <= 15
    ensures is_bin(spoly(m))
    decreases m
{
    if m == 0 {
        assert forall|i: int| #[trigger] coef(spoly(0), i) == 0 || coef(spoly(0), i) == one() by { }
    } else {
        let k = (m - 1) as nat;
        let s = spoly(k);
        lemma_spoly_bin(k);
        lemma_nrm_one(k);
        lemma_bin_pmulp(s, s);
        lemma_bin_padd(pmulp(s, s), s);
        lemma_bin_pscale(one(), padd(pmulp(s, s), s));
    }
}
// the formal derivative of shat(m, .) is the constant 1
pub proof fn lemma_spoly_deriv(m: nat, x: u16)
    requires m <= 15
    ensures peval(pderiv(spoly(m)), x) == one()
    decreases m
{
    if m == 0 {
        lemma_spoly0_deriv(x);
    } else {
        let k = (m - 1) as nat;
        lemma_spoly_deriv(k, x);
        lemma_spoly_deriv_step(k, x);
        lemma_nrm_one(k);
        lemma_fmul_one(one());
    }
}

// ---------------------------------------------------------------- the product form of the subspace polynomials
// shat(m, x) == prod_{v < 2^m} (x ^ v) / prod_{v < 2^m} (2^m ^ v): the recursion of vspec::lch defines the normalised
// vanishing polynomial of the subspace [0, 2^m)
pub open spec fn iota(n: int) -> Seq<u16> { Seq::new(n as nat, |i: int| i as u16) }
pub proof fn theorem_shat_product(m: nat, x: u16)
    requires m <= 15
    ensures
        eprod(iota(p2i(m)), p2(m)) != 0,
        shat(m, x) == fmul(eprod(iota(p2i(m)), x), finv(eprod(iota(p2i(m)), p2(m)))),
{
    lemma_p2i(m);
    lemma_one();
    let n = p2i(m);
    let m32 = m as u32;
    assert((1u32 << m32) <= 32768u32) by (bit_vector) requires m32 <= 15;
    assert(n <= 32768);
    let pts = iota(n);
    assert(pts.no_duplicates());
    let s = spoly(m);
    let lc = coef(s, n);
    let v = proots(pts);
    let g = padd(s, pscale(lc, v));
    lemma_spoly_deg(m); lemma_spoly_lead(m);
    lemma_proots_deg(pts);
    // g has degree < n
    lemma_deg_pscale(lc, v, n + 1);
    lemma_deg_padd(s, pscale(lc, v), n + 1);
    assert forall|i: int| n <= i implies #[trigger] coef(g, i) == 0 by {
        if i == n {
            lemma_coef_padd(s, pscale(lc, v), n);
            lemma_coef_pscale(lc, v, n);
            lemma_fmul_one(lc);
            lemma_xor_basic(lc, 0, 0);
        }
    }
    // g(y) == shat(m, y) ^ lc * prod (y ^ v)
    assert forall|y: u16| #[trigger] peval(g, y) == shat(m, y) ^ fmul(lc, eprod(pts, y)) by {
        lemma_peval_padd(s, pscale(lc, v), y);
        lemma_peval_pscale(lc, v, y);
        lemma_spoly_eval(m, y);
        lemma_proots_eval(pts, y);
    }
    // and n distinct roots
    assert forall|i: int| 0 <= i < pts.len() implies peval(g, #[trigger] pts[i]) == 0 by {
        let y = pts[i];
        assert(y == i as u16);
        lemma_shat_kernel(m, y);
        lemma_eprod_root(pts, i);
        lemma_fmul_zero(lc);
        lemma_xor0();
    }
    lemma_root_bound_eval(g, pts, x);
    lemma_root_bound_eval(g, pts, p2(m));
    lemma_xor_basic(shat(m, x), fmul(lc, eprod(pts, x)), 0);
    lemma_xor_basic(shat(m, p2(m)), fmul(lc, eprod(pts, p2(m))), 0);
    lemma_shat_unit(m);
    let e = eprod(pts, p2(m));
    assert(fmul(lc, e) == one());
    if e == 0 { lemma_fmul_zero(lc); }
    lemma_finv(e);
    // lc == finv(e)
    lemma_fmul_assoc(lc, e, finv(e));
    lemma_fmul_one(lc); lemma_fmul_one(finv(e));
    assert(lc == finv(e));
    lemma_fmul_comm(lc, eprod(pts, x));
}
