use vstd::prelude::*;
use crate::vspec::gf::*;
use crate::vspec::gfth::*;
use crate::vspec::tables::*;
use crate::vspec::field::*;
use crate::vspec::lch::*;
use crate::vspec::poly::*;
use crate::vspec::lchpoly::*;
use crate::vspec::walsh::eval_poly_ref;
use crate::vspec::conv::{res, xr, marked_log_sum, lemma_eval_poly_marked};
// The error locator of the decoder, in field terms.
//   rp(e, x, lo, hi)   product of (x ^ j) over the marked positions j in [lo, hi), j != x
// 1. eval_poly_ref(e)[x] is a logarithm of rp(e, x, 0, 65536)  (from M4, conv::lemma_eval_poly_marked), so multiplying by it in
//    the log domain multiplies by that product, and multiplying by 65535 - it divides by the product.
// 2. If every position >= 2^t is marked, the part of the product over [2^t, 65536) is the same constant ctail(t) for all x < 2^t.
// 3. The part over [0, n) is e_in(x) for unmarked x and e_in'(x) for marked x, e_in = proots(eseq(e, n)) the polynomial whose
//    roots are the marked positions below n.

pub open spec fn fac(e: Seq<u16>, x: int, j: int) -> u16 {
    if e[j] != 0 && j != x { (x as u16) ^ (j as u16) } else { one() }
}
pub open spec fn rp(e: Seq<u16>, x: int, lo: int, hi: int) -> u16
    decreases hi - lo
{
    if hi <= lo { one() } else { fmul(rp(e, x, lo, hi - 1), fac(e, x, hi - 1)) }
}

// ---------------------------------------------------------------- 1. logarithm of the product
pub proof fn lemma_log_prod(e: Seq<u16>, x: int, n: int)
    requires e.len() == 65536, 0 <= x < 65536, 0 <= n <= 65536
    ensures marked_log_sum(e, x, n) >= 0, gpow(marked_log_sum(e, x, n) as nat) == cantor(rp(e, x, 0, n)), rp(e, x, 0, n) != 0
    decreases n
{
    lemma_one();
    if n > 0 {
        lemma_log_prod(e, x, n - 1);
        let j = n - 1;
        let prev = marked_log_sum(e, x, n - 1);
        let p = rp(e, x, 0, n - 1);
        if e[j] != 0 && j != x {
            let xu = x as u16; let ju = j as u16;
            assert((xu ^ ju == 0) <==> xu == ju) by (bit_vector);
            let s = (xu ^ ju) as u16;
            assert(xr(x, j) == s as int);
            let l = log_table_spec()[xr(x, j)];
            assert(l == skew_L(s));
            lemma_skew_L(s);
            lemma_gpow_pmul(prev as nat, l as nat);
            lemma_cantor_inverse(pmul(cantor(p), cantor(s)));
            lemma_fmul_nz(p, s);
            assert(marked_log_sum(e, x, n) == prev + l as int);
        } else {
            lemma_fmul_one(p);
        }
    }
}

// multiplying by the locator value er[x] / by 65535 - er[x] in the log domain
pub proof fn lemma_locator_mul(e: Seq<u16>, x: int, s: u16)
    requires e.len() == 65536, 0 <= x < 65536, forall|j: int| 0 <= j < 65536 ==> e[j] == 0 || e[j] == 1
    ensures ({
        let l = eval_poly_ref(e)[x]; let p = rp(e, x, 0, 65536);
        &&& gf_mul_log(s, l) == fmul(s, p)
        &&& gf_mul_log(fmul(s, p), (65535 - l) as u16) == s
        &&& p != 0
    })
{
    let l = eval_poly_ref(e)[x]; let p = rp(e, x, 0, 65536);
    let mls = marked_log_sum(e, x, 65536);
    lemma_eval_poly_marked(e, x);
    lemma_log_prod(e, x, 65536);
    assert((l as int) % 65535 == mls % 65535);
    lemma_gpow_mod(l as nat);
    lemma_gpow_mod(mls as nat);
    assert(gpow(l as nat) == cantor(p));
    lemma_gf_mul_log_gpow(s, l, p);
    let l2 = (65535 - l) as u16;
    lemma_gpow_pmul(l as nat, l2 as nat);
    lemma_per_ground();
    assert(pmul(gpow(l as nat), gpow(l2 as nat)) == 1u16);
    let q = icantor(gpow(l2 as nat));
    lemma_cantor_inverse(gpow(l2 as nat));
    lemma_gf_mul_log_gpow(fmul(s, p), l2, q);
    assert(fmul(p, q) == one());
    lemma_fmul_assoc(s, p, q);
    lemma_fmul_one(s);
}

// ---------------------------------------------------------------- products over ranges
pub proof fn lemma_rp_split(e: Seq<u16>, x: int, lo: int, mid: int, hi: int)
    requires lo <= mid <= hi
    ensures rp(e, x, lo, hi) == fmul(rp(e, x, lo, mid), rp(e, x, mid, hi))
    decreases hi - mid
{
    if hi > mid {
        lemma_rp_split(e, x, lo, mid, hi - 1);
        lemma_fmul_assoc(rp(e, x, lo, mid), rp(e, x, mid, hi - 1), fac(e, x, hi - 1));
    } else {
        lemma_fmul_one(rp(e, x, lo, mid));
    }
}

// ---------------------------------------------------------------- 2. the tail [2^t, 65536) when all of it is marked
pub open spec fn blk(s: nat) -> u16 { eprod(iota(p2i(s)), p2(s)) }
pub open spec fn ctail(s: nat) -> u16
    decreases 16 - s
{
    if s >= 16 { one() } else { fmul(blk(s), ctail(s + 1)) }
}
pub open spec fn all_marked_from(e: Seq<u16>, lo: int) -> bool { forall|j: int| lo <= j < 65536 ==> e[j] != 0 }

pub proof fn lemma_iota_last(i: int)
    requires i >= 1
    ensures iota(i).drop_last() =~= iota(i - 1), iota(i).last() == (i - 1) as u16
{
}
pub proof fn lemma_rp_block_pre(e: Seq<u16>, x: int, s: nat, i: int)
    requires e.len() == 65536, s <= 15, 0 <= x < p2i(s), 0 <= i <= p2i(s), all_marked_from(e, p2i(s))
    ensures rp(e, x, p2i(s), p2i(s) + i) == eprod(iota(i), (x as u16) ^ p2(s))
    decreases i
{
    lemma_p2i(s); lemma_p2i(s + 1); lemma_p2i_pow2(s);
    let h = p2i(s);
    if i > 0 {
        lemma_rp_block_pre(e, x, s, i - 1);
        lemma_iota_last(i);
        let j = h + i - 1;
        assert(p2i(s + 1) <= 65536) by { lemma_p2i_mono(s + 1, 16); assert(p2i(16) == 65536) by (compute_only); }
        assert(e[j] != 0);
        let xu = x as u16; let vu = (i - 1) as u16; let ss = s as u16;
        assert(j as u16 == ((1u16 << ss) + vu) as u16);
        assert(xu ^ (((1u16 << ss) + vu) as u16) == (xu ^ (1u16 << ss)) ^ vu) by (bit_vector) requires ss <= 15, vu < (1u16 << ss);
        assert(rp(e, x, h, h + i) == fmul(rp(e, x, h, h + i - 1), fac(e, x, j)));
    }
}
pub proof fn lemma_rp_block(e: Seq<u16>, x: int, s: nat)
    requires e.len() == 65536, s <= 15, 0 <= x < p2i(s), all_marked_from(e, p2i(s))
    ensures rp(e, x, p2i(s), p2i(s + 1)) == blk(s), blk(s) != 0
{
    lemma_p2i(s); lemma_p2i_pow2(s);
    let h = p2i(s);
    let xu = x as u16;
    let y = (xu ^ p2(s)) as u16;
    lemma_rp_block_pre(e, x, s, h);
    theorem_shat_product(s, y);
    lemma_shat_add(s, xu, p2(s));
    lemma_shat_kernel(s, xu);
    lemma_shat_unit(s);
    lemma_xor_basic(one(), 0, 0);
    assert(shat(s, y) == one());
    let a = eprod(iota(h), y); let b = blk(s);
    lemma_finv(b);
    lemma_fmul_assoc(a, finv(b), b);
    lemma_fmul_one(a); lemma_fmul_one(b);
}
pub proof fn lemma_rp_tail(e: Seq<u16>, x: int, s: nat)
    requires e.len() == 65536, s <= 16, 0 <= x < p2i(s), all_marked_from(e, p2i(s))
    ensures rp(e, x, p2i(s), 65536) == ctail(s), ctail(s) != 0
    decreases 16 - s
{
    lemma_one();
    assert(p2i(16) == 65536) by (compute_only);
    if s < 16 {
        lemma_p2i_pow2(s);
        lemma_p2i_mono(s + 1, 16);
        lemma_rp_block(e, x, s);
        lemma_rp_tail(e, x, s + 1);
        lemma_rp_split(e, x, p2i(s), p2i(s + 1), 65536);
        lemma_fmul_nz(blk(s), ctail(s + 1));
    }
}

// ---------------------------------------------------------------- 3. the marked positions below n as a root sequence
pub open spec fn eseq(e: Seq<u16>, n: int) -> Seq<u16>
    decreases n
{
    if n <= 0 { Seq::<u16>::empty() } else if e[n - 1] != 0 { eseq(e, n - 1).push((n - 1) as u16) } else { eseq(e, n - 1) }
}
pub open spec fn eseqx(e: Seq<u16>, x: int, n: int) -> Seq<u16>
    decreases n
{
    if n <= 0 { Seq::<u16>::empty() } else if e[n - 1] != 0 && n - 1 != x { eseqx(e, x, n - 1).push((n - 1) as u16) } else { eseqx(e, x, n - 1) }
}
pub proof fn lemma_rp_eseqx(e: Seq<u16>, x: int, n: int)
    ensures rp(e, x, 0, n) == eprod(eseqx(e, x, n), x as u16)
    decreases n
{
    if n > 0 {
        lemma_rp_eseqx(e, x, n - 1);
        let prev = eseqx(e, x, n - 1);
        if e[n - 1] != 0 && n - 1 != x {
            let cur = prev.push((n - 1) as u16);
            assert(cur.drop_last() =~= prev);
            assert(cur.last() == (n - 1) as u16);
        } else {
            lemma_fmul_one(rp(e, x, 0, n - 1));
        }
    }
}
pub proof fn lemma_eseqx_unmarked(e: Seq<u16>, x: int, n: int)
    requires !(0 <= x < n && e[x] != 0)
    ensures eseqx(e, x, n) == eseq(e, n)
    decreases n
{
    if n > 0 { lemma_eseqx_unmarked(e, x, n - 1); }
}
pub proof fn lemma_eseqx_marked(e: Seq<u16>, x: int, n: int)
    requires 0 <= x < n, e[x] != 0
    ensures
        eseq(e, x).len() < eseq(e, n).len(),
        eseq(e, n)[eseq(e, x).len() as int] == x as u16,
        eseqx(e, x, n) =~= eseq(e, n).remove(eseq(e, x).len() as int),
    decreases n
{
    let p = eseq(e, x).len() as int;
    if n == x + 1 {
        lemma_eseqx_unmarked(e, x, x);
        assert(eseq(e, n) == eseq(e, x).push(x as u16));
        assert(eseq(e, n).remove(p) =~= eseq(e, x));
    } else {
        lemma_eseqx_marked(e, x, n - 1);
        let a = eseq(e, n - 1);
        if e[n - 1] != 0 {
            let j = (n - 1) as u16;
            assert(a.push(j).remove(p) =~= a.remove(p).push(j));
        }
    }
}
// value of the in-range product: e_in(x) off the marked set, e_in'(x) on it
pub proof fn lemma_rp_inrange(e: Seq<u16>, x: int, n: int)
    requires 0 <= x < n
    ensures
        e[x] == 0 ==> rp(e, x, 0, n) == peval(proots(eseq(e, n)), x as u16),
        e[x] != 0 ==> rp(e, x, 0, n) == peval(pderiv(proots(eseq(e, n))), x as u16) && peval(proots(eseq(e, n)), x as u16) == 0,
{
    let pts = eseq(e, n);
    lemma_rp_eseqx(e, x, n);
    lemma_proots_eval(pts, x as u16);
    if e[x] == 0 {
        lemma_eseqx_unmarked(e, x, n);
    } else {
        lemma_eseqx_marked(e, x, n);
        let p = eseq(e, x).len() as int;
        lemma_proots_deriv_root(pts, p);
        lemma_eprod_root(pts, p);
    }
}
// all together: for x < 2^t with the whole tail marked
pub proof fn lemma_locator_value(e: Seq<u16>, x: int, t: nat)
    requires e.len() == 65536, t <= 16, 0 <= x < p2i(t), all_marked_from(e, p2i(t))
    ensures
        ctail(t) != 0,
        e[x] == 0 ==> rp(e, x, 0, 65536) == fmul(peval(proots(eseq(e, p2i(t))), x as u16), ctail(t)),
        e[x] != 0 ==> rp(e, x, 0, 65536) == fmul(peval(pderiv(proots(eseq(e, p2i(t)))), x as u16), ctail(t))
            && peval(proots(eseq(e, p2i(t))), x as u16) == 0,
{
    lemma_p2i(t);
    lemma_p2i_mono(t, 16);
    assert(p2i(16) == 65536) by (compute_only);
    lemma_rp_tail(e, x, t);
    lemma_rp_split(e, x, 0, p2i(t), 65536);
    lemma_rp_inrange(e, x, p2i(t));
}

// ---------------------------------------------------------------- counting
pub open spec fn ecnt(e: Seq<u16>, lo: int, hi: int) -> int
    decreases hi - lo
{
    if hi <= lo { 0 } else { ecnt(e, lo, hi - 1) + if e[hi - 1] != 0 { 1int } else { 0int } }
}
pub proof fn lemma_ecnt_split(e: Seq<u16>, lo: int, mid: int, hi: int)
    requires lo <= mid <= hi
    ensures ecnt(e, lo, hi) == ecnt(e, lo, mid) + ecnt(e, mid, hi)
    decreases hi - mid
{
    if hi > mid { lemma_ecnt_split(e, lo, mid, hi - 1); }
}
pub proof fn lemma_eseq_len(e: Seq<u16>, n: int)
    requires n >= 0
    ensures eseq(e, n).len() == ecnt(e, 0, n)
    decreases n
{
    if n > 0 { lemma_eseq_len(e, n - 1); }
}
// number of received positions in [lo, hi)
pub open spec fn rcnt(rcv: Set<nat>, lo: int, hi: int) -> int
    decreases hi - lo
{
    if hi <= lo { 0 } else { rcnt(rcv, lo, hi - 1) + if rcv.contains((hi - 1) as nat) { 1int } else { 0int } }
}
