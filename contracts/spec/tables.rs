use vstd::prelude::*;
use crate::engine::tables::*;
use crate::vspec::gf::*;
// What the engines need from the lookup tables, stated against the first-principles field of vspec::gf.

// mod-65535 addition as written in utils::add_mod (0 and 65535 both stand for residue 0)
pub open spec fn add_mod_spec(x: u16, y: u16) -> u16 {
    let sum = (x as u32 + y as u32) as u32;
    ((sum + (sum >> 16)) as u32 & 0xffff) as u16
}
pub open spec fn table_mul(x: u16, log_m: u16, exp: Seq<u16>, log: Seq<u16>) -> u16 {
    if x == 0 { 0 } else { exp[add_mod_spec(log[x as int], log_m) as int] }
}
// exp/log tables multiply correctly for every (symbol, log_m) pair
pub uninterp spec fn log_table_spec() -> Seq<u16>;     // the one LOG table (content pinned by initialize_exp_log's contract / N-TABLES)
pub open spec fn ok_EXP_LOG(t: &ExpLog) -> bool {
    &&& forall|x: u16, m: u16| #[trigger] table_mul(x, m, t.exp@, t.log@) == gf_mul_log(x, m)
    &&& t.log@ == log_table_spec()
}
// nibble tables of the NoSimd engine
pub open spec fn mul16_rows_ok(t: &Mul16) -> bool {
    forall|m: int, k: int, n: int| 0 <= m < 65536 && 0 <= k < 4 && 0 <= n < 16 ==>
        #[trigger] t@[m]@[k]@[n] == gf_mul_log(((n as u16) << ((4 * k) as u16)) as u16, m as u16)
}
pub open spec fn ok_MUL16(t: &Box<Mul16>) -> bool { mul16_rows_ok(&**t) }
pub uninterp spec fn mul128_rows_ok(t: &Mul128) -> bool;
// the one skew table all engines share; its *content* is pinned by the table contracts (or N-TABLES)
pub uninterp spec fn skew_spec() -> Seq<u16>;
pub open spec fn ok_SKEW(t: &Box<Skew>) -> bool { t@ == skew_spec() }
// LOG_WALSH = Walsh-Hadamard transform of the LOG table with entry 0 cleared
pub open spec fn log_walsh_spec() -> Seq<u16> { crate::vspec::walsh::wht_ref(log_table_spec().update(0, 0u16)) }
pub open spec fn ok_LOG_WALSH(t: &Box<LogWalsh>) -> bool { t@ == log_walsh_spec() }
pub open spec fn ok_MUL128(t: &Box<Mul128>) -> bool { mul128_rows_ok(&**t) }
