use vstd::prelude::*;
use crate::engine::tables::*;
use crate::vspec::gf::*;
use crate::vspec::gfth::*;
// What the engines need from the lookup tables, stated against the first-principles field of vspec::gf.

// mod-65535 addition as written in utils::add_mod (0 and 65535 both stand for residue 0)
pub open spec fn add_mod_spec(x: u16, y: u16) -> u16 {
    let sum = (x as u32 + y as u32) as u32;
    ((sum + (sum >> 16)) as u32 & 0xffff) as u16
}
pub open spec fn table_mul(x: u16, log_m: u16, exp: Seq<u16>, log: Seq<u16>) -> u16 {
    if x == 0 { 0 } else { exp[add_mod_spec(log[x as int], log_m) as int] }
}
// The LOG and EXP tables from first principles (field polynomial 0x1002D, generator x, Cantor basis):
//   log[x] = discrete logarithm (base x) of the field element that symbol x stands for; log[0] = 65535
//   exp[l] = the symbol standing for x^l, for l in 0..=65535 (so exp[65535] == exp[0])
pub open spec fn plog(c: u16) -> u16 { if c == 0 { 65535u16 } else { dlog(c) as u16 } }
pub open spec fn log_table_spec() -> Seq<u16> { Seq::new(65536, |x: int| plog(cantor(x as u16))) }
pub open spec fn exp_table_spec() -> Seq<u16> { Seq::new(65536, |l: int| icantor(gpow(l as nat))) }
// exp/log tables are the defined ones, hence multiply correctly for every (symbol, log_m) pair
pub open spec fn ok_EXP_LOG(t: &ExpLog) -> bool {
    &&& forall|x: u16, m: u16| #[trigger] table_mul(x, m, t.exp@, t.log@) == gf_mul_log(x, m)
    &&& t.log@ == log_table_spec()
    &&& t.exp@ == exp_table_spec()
}
pub proof fn lemma_add_mod_gpow(l: u16, m: u16)
    requires l < 65535
    ensures gpow(add_mod_spec(l, m) as nat) == gpow((l + m) as nat)
{
    let sum = (l as u32 + m as u32) as u32;
    let s = ((sum + (sum >> 16)) as u32 & 0xffff) as u16;
    assert(sum < 65536 ==> (sum + (sum >> 16)) as u32 & 0xffff == sum) by (bit_vector) requires sum <= 131069u32;
    assert(sum >= 65536 ==> (sum + (sum >> 16)) as u32 & 0xffff == sum - 65535) by (bit_vector) requires sum <= 131069u32;
    if sum >= 65536 { lemma_gpow_periodic(s as nat, 1); assert(s as nat + 65535 * 1 == (l + m) as nat); }
}
pub proof fn lemma_table_mul(x: u16, m: u16)
    ensures table_mul(x, m, exp_table_spec(), log_table_spec()) == gf_mul_log(x, m)
{
    if x == 0 { lemma_gf_zero(m); } else {
        let c = cantor(x);
        lemma_cantor_nz(x); lemma_dlog(c);
        let l = dlog(c) as u16;
        assert(log_table_spec()[x as int] == l);
        lemma_add_mod_gpow(l, m);
        lemma_gpow_pmul(l as nat, m as nat);
    }
}
// nibble tables of the NoSimd engine
pub open spec fn mul16_rows_ok(t: &Mul16) -> bool {
    forall|m: int, k: int, n: int| 0 <= m < 65536 && 0 <= k < 4 && 0 <= n < 16 ==>
        #[trigger] t@[m]@[k]@[n] == gf_mul_log(((n as u16) << ((4 * k) as u16)) as u16, m as u16)
}
pub open spec fn ok_MUL16(t: &Box<Mul16>) -> bool { mul16_rows_ok(&**t) }
// byte-sliced nibble tables of the SIMD engines: byte n of lo[k] / hi[k] is the low / high byte of (n << 4k) * g^m
pub open spec fn m128_entry_ok(e: Multiply128lutT, k: int, n: int, m: u16) -> bool {
    let p = gf_mul_log(((n as u16) << ((4 * k) as u16)) as u16, m);
    crate::vprelude::byte_of(e.lo@[k], n) == (p & 0xff) as u8 && crate::vprelude::byte_of(e.hi@[k], n) == (p >> 8) as u8
}
pub open spec fn mul128_rows_ok(t: &Mul128) -> bool {
    forall|m: int, k: int, n: int| 0 <= m < 65536 && 0 <= k < 4 && 0 <= n < 16 ==> #[trigger] m128_entry_ok(t@[m], k, n, m as u16)
}
// the one skew table all engines share; its *content* is pinned by the table contracts (or N-TABLES)
pub uninterp spec fn skew_spec() -> Seq<u16>;
pub open spec fn ok_SKEW(t: &Box<Skew>) -> bool { t@ == skew_spec() }
// LOG_WALSH = Walsh-Hadamard transform of the LOG table with entry 0 cleared
pub open spec fn log_walsh_spec() -> Seq<u16> { crate::vspec::walsh::wht_ref(log_table_spec().update(0, 0u16)) }
pub open spec fn ok_LOG_WALSH(t: &Box<LogWalsh>) -> bool { t@ == log_walsh_spec() }
pub open spec fn ok_MUL128(t: &Box<Mul128>) -> bool { mul128_rows_ok(&**t) }
