use vstd::prelude::*;
use crate::engine::tables::*;
use crate::vspec::gf::*;
use crate::vspec::gfth::*;
// What the engines need from the lookup tables, stated against the first-principles field of vspec::gf.

// mod-65535 addition as written in utils::add_mod (0 and 65535 both stand for residue 0)
pub open spec fn add_mod_spec(x: u16, y: u16) -> u16 {
    let sum = (x as u32 + y as u32) as u32;
    ((sum + (sum >> 16)) as u32 & 0xffff) as u16
}
pub open spec fn table_mul(x: u16, log_m: u16, exp: Seq<u16>, log: Seq<u16>) -> u16 {
    if x == 0 { 0 } else { exp[add_mod_spec(log[x as int], log_m) as int] }
}
// The LOG and EXP tables from first principles (field polynomial 0x1002D, generator x, Cantor basis):
//   log[x] = discrete logarithm (base x) of the field element that symbol x stands for; log[0] = 65535
//   exp[l] = the symbol standing for x^l, for l in 0..=65535 (so exp[65535] == exp[0])
pub open spec fn plog(c: u16) -> u16 { if c == 0 { 65535u16 } else { dlog(c) as u16 } }
pub open spec fn log_table_spec() -> Seq<u16> { Seq::new(65536, |x: int| plog(cantor(x as u16))) }
pub open spec fn exp_table_spec() -> Seq<u16> { Seq::new(65536, |l: int| icantor(gpow(l as nat))) }
// exp/log tables are the defined ones, hence multiply correctly for every (symbol, log_m) pair
pub open spec fn ok_EXP_LOG(t: &ExpLog) -> bool {
    &&& forall|x: u16, m: u16| #[trigger] table_mul(x, m, t.exp@, t.log@) == gf_mul_log(x, m)
    &&& t.log@ == log_table_spec()
    &&& t.exp@ == exp_table_spec()
}
pub proof fn lemma_add_mod_gpow(l: u16, m: u16)
    requires l < 65535
    ensures gpow(add_mod_spec(l, m) as nat) == gpow((l + m) as nat)
{
    let sum = (l as u32 + m as u32) as u32;
    let s = ((sum + (sum >> 16)) as u32 & 0xffff) as u16;
    assert(sum < 65536 ==> (sum + (sum >> 16)) as u32 & 0xffff == sum) by (bit_vector) requires sum <= 131069u32;
    assert(sum >= 65536 ==> (sum + (sum >> 16)) as u32 & 0xffff == sum - 65535) by (bit_vector) requires sum <= 131069u32;
    if sum >= 65536 { lemma_gpow_periodic(s as nat, 1); assert(s as nat + 65535 * 1 == (l + m) as nat); }
}
pub proof fn lemma_table_mul(x: u16, m: u16)
    ensures table_mul(x, m, exp_table_spec(), log_table_spec()) == gf_mul_log(x, m)
{
    if x == 0 { lemma_gf_zero(m); } else {
        let c = cantor(x);
        lemma_cantor_nz(x); lemma_dlog(c);
        let l = dlog(c) as u16;
        assert(log_table_spec()[x as int] == l);
        lemma_add_mod_gpow(l, m);
        lemma_gpow_pmul(l as nat, m as nat);
    }
}
// nibble tables of the NoSimd engine
pub open spec fn mul16_rows_ok(t: &Mul16) -> bool {
    forall|m: int, k: int, n: int| 0 <= m < 65536 && 0 <= k < 4 && 0 <= n < 16 ==>
        #[trigger] t@[m]@[k]@[n] == gf_mul_log(((n as u16) << ((4 * k) as u16)) as u16, m as u16)
}
pub open spec fn ok_MUL16(t: &Box<Mul16>) -> bool { mul16_rows_ok(&**t) }
// byte-sliced nibble tables of the SIMD engines: byte n of lo[k] / hi[k] is the low / high byte of (n << 4k) * g^m
pub open spec fn m128_entry_ok(e: Multiply128lutT, k: int, n: int, m: u16) -> bool {
    let p = gf_mul_log(((n as u16) << ((4 * k) as u16)) as u16, m);
    crate::vprelude::byte_of(e.lo@[k], n) == (p & 0xff) as u8 && crate::vprelude::byte_of(e.hi@[k], n) == (p >> 8) as u8
}
pub open spec fn mul128_rows_ok(t: &Mul128) -> bool {
    forall|m: int, k: int, n: int| 0 <= m < 65536 && 0 <= k < 4 && 0 <= n < 16 ==> #[trigger] m128_entry_ok(t@[m], k, n, m as u16)
}
// the one skew table all engines share; its *content* is pinned by the table contracts (or N-TABLES)
// SKEW from first principles, mirroring what `initialize_skew` computes (only the field primitives and the LOG definition):
//   skew_L(x)        = LOG[x]
//   skew_temp(m, b)  = temp[b] at the start of outer iteration m (b >= m); skew_nrm(m) = the normaliser stored into temp[m]
//   skew_xor(m, x, n)= XOR of skew_temp(m, k) over k in m..n with bit k+1 of x set
//   skew_raw(j)      = un-logged entry j: with m = index of the lowest zero bit of j, skew_xor(m, j, 15) (0 when m >= 15, i.e. j = 32767)
pub open spec fn skew_L(x: u16) -> u16 { log_table_spec()[x as int] }
pub open spec fn skew_temp(m: nat, b: int) -> u16
    decreases m, 0int
{
    if m == 0 { (1u16 << ((b + 1) as u16)) as u16 }
    else {
        let t = skew_temp((m - 1) as nat, b);
        gf_mul_log(t, add_mod_spec(skew_L(t ^ 1), skew_nrm((m - 1) as nat)))
    }
}
pub open spec fn skew_nrm(m: nat) -> u16
    decreases m, 1int
{
    let t = skew_temp(m, m as int);
    (65535 - skew_L(gf_mul_log(t, skew_L(t ^ 1)))) as u16
}
pub open spec fn skew_xor(m: nat, x: u16, n: int) -> u16
    decreases n
{
    if n <= m { 0 } else { skew_xor(m, x, n - 1) ^ (if bit(x, n) { skew_temp(m, n - 1) } else { 0u16 }) }
}
// index of the lowest zero bit of j at or above position k (16 if there is none)
pub open spec fn lowzero(j: u16, k: int) -> int
    decreases 16 - k
{
    if k >= 16 || !bit(j, k) { k } else { lowzero(j, k + 1) }
}
pub open spec fn skew_raw(j: u16) -> u16 {
    let m = lowzero(j, 0);
    if 0 <= m < 15 { skew_xor(m as nat, j, 15) } else { 0 }
}
#[verifier::opaque]
pub open spec fn skew_spec() -> Seq<u16> { Seq::new(65535, |j: int| skew_L(skew_raw(j as u16))) }

// "the lowest zero bit of j is bit m", in mask form
pub open spec fn lzmask(j: u16, m: int) -> bool {
    j & (((1u16 << ((m + 1) as u16)) - 1) as u16) == ((1u16 << (m as u16)) - 1) as u16
}
pub proof fn lemma_lowzero_ge(j: u16, k: int)
    requires 0 <= k <= 16
    ensures k <= lowzero(j, k) <= 16
    decreases 16 - k
{
    if k < 16 && bit(j, k) { lemma_lowzero_ge(j, k + 1); }
}
pub proof fn lemma_lz_aux(j: u16, k: int, m: int)
    requires 0 <= k <= m <= 14, j & (((1u16 << (k as u16)) - 1) as u16) == ((1u16 << (k as u16)) - 1) as u16
    ensures lowzero(j, k) == m <==> lzmask(j, m)
    decreases m - k
{
    let kk = k as u16; let mm = m as u16; let m1 = (m + 1) as u16; let k1 = (k + 1) as u16;
    if k == m {
        assert((j & (((1u16 << m1) - 1) as u16) == ((1u16 << mm) - 1) as u16) <==> ((j >> kk) & 1 != 1)) by (bit_vector)
            requires kk == mm, mm <= 14, m1 == mm + 1, j & (((1u16 << kk) - 1) as u16) == ((1u16 << kk) - 1) as u16;
        if bit(j, k) { lemma_lowzero_ge(j, k + 1); }
    } else {
        if bit(j, k) {
            assert(j & (((1u16 << k1) - 1) as u16) == ((1u16 << k1) - 1) as u16) by (bit_vector)
                requires kk < 14, k1 == kk + 1, (j >> kk) & 1 == 1, j & (((1u16 << kk) - 1) as u16) == ((1u16 << kk) - 1) as u16;
            lemma_lz_aux(j, k + 1, m);
        } else {
            assert(!(j & (((1u16 << m1) - 1) as u16) == ((1u16 << mm) - 1) as u16)) by (bit_vector)
                requires kk < mm, mm <= 14, m1 == mm + 1, (j >> kk) & 1 != 1;
        }
    }
}
pub proof fn lemma_lz_iff(j: u16, m: int)
    requires 0 <= m <= 14
    ensures lowzero(j, 0) == m <==> lzmask(j, m)
{
    assert(j & (((1u16 << 0u16) - 1) as u16) == ((1u16 << 0u16) - 1) as u16) by (bit_vector);
    lemma_lz_aux(j, 0, m);
}
// skew_xor only looks at bits m+1..=n
pub proof fn lemma_xor_agree(m: nat, a: u16, b: u16, n: int)
    requires n <= 15, forall|k: int| m < k <= n ==> bit(a, k) == bit(b, k)
    ensures skew_xor(m, a, n) == skew_xor(m, b, n)
    decreases n
{
    if n > m { lemma_xor_agree(m, a, b, n - 1); }
}
pub proof fn lemma_xor_zero(m: nat, a: u16, n: int)
    requires n <= 15, forall|k: int| m < k <= n ==> !bit(a, k)
    ensures skew_xor(m, a, n) == 0
    decreases n
{
    if n > m { lemma_xor_zero(m, a, n - 1); assert(0u16 ^ 0u16 == 0u16) by (bit_vector); }
}
// the inner assignment of initialize_skew: entry j + 2^(i+1) is entry j xor temp[i]
pub proof fn lemma_xor_step(m: nat, j: u16, i: int, n: int)
    requires m <= i < n <= 15, j < (1u16 << ((i + 1) as u16))
    ensures skew_xor(m, (j + (1u16 << ((i + 1) as u16))) as u16, n) == skew_xor(m, j, n) ^ skew_temp(m, i)
    decreases n
{
    let i1 = (i + 1) as u16; let nn = n as u16;
    let s = 1u16 << i1;
    let j2 = (j + s) as u16;
    let t = skew_temp(m, i);
    if n == i + 1 {
        assert(((j + (1u16 << i1)) as u16 >> i1) & 1 == 1 && (j >> i1) & 1 != 1) by (bit_vector) requires i1 <= 15, j < (1u16 << i1);
        assert forall|k: int| m < k <= i implies bit(j2, k) == bit(j, k) by {
            let kk = k as u16;
            assert(((j + (1u16 << i1)) as u16 >> kk) & 1 == (j >> kk) & 1) by (bit_vector) requires i1 <= 15, kk < i1, j < (1u16 << i1);
        }
        lemma_xor_agree(m, j2, j, i);
        let a = skew_xor(m, j, i);
        assert(a ^ t == (a ^ 0u16) ^ t) by (bit_vector);
    } else {
        lemma_xor_step(m, j, i, n - 1);
        assert(((j + (1u16 << i1)) as u16 >> nn) & 1 != 1 && (j >> nn) & 1 != 1) by (bit_vector) requires i1 < nn, nn <= 15, j < (1u16 << i1);
        let a = skew_xor(m, j, n - 1);
        assert((a ^ t) ^ 0u16 == (a ^ 0u16) ^ t) by (bit_vector);
    }
}
pub open spec fn ok_SKEW(t: &Box<Skew>) -> bool { t@ == skew_spec() }
// LOG_WALSH = Walsh-Hadamard transform of the LOG table with entry 0 cleared
pub open spec fn log_walsh_spec() -> Seq<u16> { crate::vspec::walsh::wht_ref(log_table_spec().update(0, 0u16)) }
pub open spec fn ok_LOG_WALSH(t: &Box<LogWalsh>) -> bool { t@ == log_walsh_spec() }
pub open spec fn ok_MUL128(t: &Box<Mul128>) -> bool { mul128_rows_ok(&**t) }
