use vstd::prelude::*;
use crate::vspec::gf::*;
use crate::vspec::field::*;
use crate::vspec::arith::*;
use crate::vspec::xform::*;
use crate::vspec::codec::*;
use crate::vspec::envelope::{np2, lemma_np2, lemma_np2_pow2};
use crate::vspec::linear::rect;
use crate::vspec::lch::*;
use crate::vspec::poly::*;
use crate::vspec::lchpoly::*;
use crate::vspec::tables::skew_spec;
use crate::vspec::walsh::eval_poly_ref;
use crate::vspec::derivlch::*;
use crate::vspec::locator::*;
use crate::vspec::cauchy::*;
use crate::vspec::declow::{lemma_cnt_rcv_seg, lemma_cnt_zero_seg, lemma_cnt_full_seg, lemma_mul3, rset, lemma_rset};
// C01 for the high-rate code at the level of the reference algorithms: any original_count of the shards restore every missing original.
// Work layout (m = np2(rc), n = decoder work size, a power of two >= m + oc): recovery j at position j < rc, [rc, m) padding
// that the decoder marks as erased, original i at position m + i, [m + oc, n) known zero shards (not erased).
//   F      codeword polynomial of a slot: the Lagrange polynomial of degree < n - m through the values orig[i] at m + i (i < oc)
//          and 0 at the points of [m + oc, n).  The closed form of the encoder (C02, vspec::cauchy) says that recovery j is
//          XOR_i orig[i] * sm(m, m + i) / (wm(m) * (j ^ (m + i))); the Lagrange terms of F at a point j < m are exactly these,
//          because prod_{q != p, q < n} (p ^ q) = wm(n) for EVERY p < n (the derivative of the subspace polynomial is constant):
//              prod_{q in [m, n)} (j ^ q) = wm(n) / wm(m),     prod_{q in [m, n), q != p} (p ^ q) = wm(n) / sm(m, p).
//          Hence F(j) = recovery j for all j < m: the codeword (recovery | originals | zeros) on [0, n) has degree < n - m.
//   e_in   product of (x ^ p) over the erased work positions p < n; nothing at or above m + oc is erased (tail = 0), so the
//          locator of the decoder is e_in(x) (received x) resp. e_in'(x) (erased x) with no constant factor
//   G      = F * e_in, degree < (n - m) + #erased <= n when at least oc shards were received (#erased = m + oc - #received)
// The decoder's w1 holds G on [0, n) (received: F * locator; erased: e_in = 0; [m + oc, n): F = 0); IFFT gives its LCH
// coefficients, deriv_ref those of G + G', FFT evaluates; at an erased original x = m + idx: G(x) = 0 and
// G'(x) = F(x) * e_in'(x) = orig[idx] * locator(x); the final log-domain multiply divides by locator(x).

// ---------------------------------------------------------------- 1. products over concatenated point sequences
pub proof fn lemma_eprod_concat(a: Seq<u16>, b: Seq<u16>, y: u16)
    ensures eprod(a + b, y) == fmul(eprod(a, y), eprod(b, y))
    decreases b.len()
{
    if b.len() == 0 {
        assert(a + b =~= a);
        lemma_fmul_one(eprod(a, y));
    } else {
        let r = b.drop_last();
        assert((a + b).drop_last() =~= a + r);
        assert((a + b).last() == b.last());
        lemma_eprod_concat(a, r, y);
        lemma_fmul_assoc(eprod(a, y), eprod(r, y), y ^ b.last());
    }
}
// the points a, a + 1, ..., b - 1 (cauchy::coset without the alignment)
pub proof fn lemma_iota_split(a: int, b: int)
    requires 0 <= a <= b <= 65536
    ensures iota(b) =~= iota(a) + coset(a, b - a), coset(a, b - a).len() == b - a, coset(a, b - a).no_duplicates()
{
}
// wm(b) = wm(a) * prod_{a <= v < b} v
pub proof fn lemma_wm_split(a: int, b: int)
    requires 1 <= a <= b <= 65536
    ensures wm(b) == fmul(wm(a), eprod(coset(a, b - a), 0u16))
    decreases b - a
{
    if b == a {
        lemma_fmul_one(wm(a));
    } else {
        let c = coset(a, b - a);
        lemma_wm_split(a, b - 1);
        assert(c.drop_last() =~= coset(a, b - 1 - a));
        assert(c.last() == (b - 1) as u16);
        lemma_xor_basic((b - 1) as u16, 0, 0);
        lemma_fmul_assoc(wm(a), eprod(coset(a, b - 1 - a), 0u16), (b - 1) as u16);
    }
}

// ---------------------------------------------------------------- 2. prod_{q != i, q < 2^t} (i ^ q) == wm(2^t) up to the whole field (t <= 16)
// one doubling step: from the subspace [0, 2^s) to [0, 2^(s+1))
pub proof fn lemma_lden_step(s: nat, i: int)
    requires s <= 15, 0 <= i < p2i(s + 1)
    ensures lden(iota(p2i(s + 1)), i) == wm(p2i(s + 1)), wm(p2i(s + 1)) != 0
{
    lemma_p2i_bound(s);
    lemma_p2i_pow2(s);
    let h = p2i(s); let n = 2 * h;
    assert(n == p2i(s + 1));
    let h16 = h as u16;
    assert(h16 == p2(s));
    let lo = iota(h); let C = coset(h, h);
    lemma_iota_split(h, n);
    lemma_mult(1, h);
    lemma_coset(s, h);
    assert(C =~= xmap(lo, h16));
    // prod_{h <= v < 2h} v == sm(h, 2^s)
    let K = eprod(C, 0u16);
    lemma_eprod_shift(lo, h16, 0u16);
    lemma_xor_basic(h16, 0, 0);
    assert(K == sm(h, h16));
    lemma_sm_shat(s, h16);
    assert(K != 0);
    lemma_wm_split(h, n);
    lemma_lden_wm(s, 0);
    lemma_fmul_nz(wm(h), K);
    let pts = iota(n);
    if i < h {
        let i16 = i as u16;
        assert(pts.remove(i) =~= lo.remove(i) + C);
        assert(pts[i] == i16 && lo[i] == i16);
        lemma_eprod_concat(lo.remove(i), C, i16);
        lemma_lden_wm(s, i);
        lemma_eprod_shift(lo, h16, i16);
        lemma_xor_basic(i16, h16, 0);
        lemma_sm_coset(s, h16, i16);
        assert(eprod(C, i16) == K);
    } else {
        let r = i - h; let r16 = r as u16; let i16 = i as u16;
        assert(pts.remove(i) =~= lo + C.remove(r));
        assert(pts[i] == i16 && C[r] == i16);
        lemma_eprod_concat(lo, C.remove(r), i16);
        lemma_lden_shift(lo, h16, r);
        lemma_lden_wm(s, r);
        assert(lden(C, r) == wm(h));
        lemma_add_xor(h, r, s);
        lemma_sm_coset(s, h16, r16);
        assert(sm(h, i16) == K);
        lemma_fmul_comm(K, wm(h));
    }
}
pub proof fn lemma_lden_full(t: nat, i: int)
    requires t <= 16, 0 <= i < p2i(t)
    ensures lden(iota(p2i(t)), i) == wm(p2i(t)), wm(p2i(t)) != 0
{
    if t <= 15 { lemma_lden_wm(t, i); } else { lemma_lden_step(15, i); }
}

// ---------------------------------------------------------------- 3. the two products over the upper part [m, n) of the subspace [0, n)
pub open spec fn hr_pts(m: int, n: int) -> Seq<u16> { coset(m, n - m) }

// j below m: prod_{q in [m, n)} (j ^ q) == wm(n) / wm(m)
pub proof fn lemma_upper_prod_low(tm: nat, t: nat, j: int)
    requires tm <= 15, t <= 16, p2i(tm) < p2i(t), 0 <= j < p2i(tm)
    ensures fmul(wm(p2i(tm)), eprod(hr_pts(p2i(tm), p2i(t)), j as u16)) == wm(p2i(t)), wm(p2i(t)) != 0, wm(p2i(tm)) != 0
{
    let m = p2i(tm); let n = p2i(t);
    lemma_p2i_bound(tm);
    lemma_p2i_mono(t, 16); assert(p2i(16) == 65536) by (compute_only);
    let lo = iota(m); let C = hr_pts(m, n); let pts = iota(n);
    let j16 = j as u16;
    lemma_iota_split(m, n);
    assert(pts.remove(j) =~= lo.remove(j) + C);
    assert(pts[j] == j16 && lo[j] == j16);
    lemma_eprod_concat(lo.remove(j), C, j16);
    lemma_lden_full(t, j);
    lemma_lden_wm(tm, j);
}
// p = m + i in [m, n): prod_{q < m} (p ^ q) * prod_{q in [m, n), q != p} (p ^ q) == wm(n)
pub proof fn lemma_upper_prod_high(tm: nat, t: nat, i: int)
    requires tm <= 15, t <= 16, p2i(tm) < p2i(t), 0 <= i < p2i(t) - p2i(tm)
    ensures fmul(sm(p2i(tm), (p2i(tm) + i) as u16), lden(hr_pts(p2i(tm), p2i(t)), i)) == wm(p2i(t)), wm(p2i(t)) != 0
{
    let m = p2i(tm); let n = p2i(t);
    lemma_p2i_bound(tm);
    lemma_p2i_mono(t, 16); assert(p2i(16) == 65536) by (compute_only);
    let lo = iota(m); let C = hr_pts(m, n); let pts = iota(n);
    let p = m + i; let p16 = p as u16;
    lemma_iota_split(m, n);
    assert(pts.remove(p) =~= lo + C.remove(i));
    assert(pts[p] == p16 && C[i] == p16);
    lemma_eprod_concat(lo, C.remove(i), p16);
    lemma_lden_full(t, p);
}
// a / (W * z) == S / (w * z) when a * w == S * W
pub proof fn lemma_cross_div(a: u16, W: u16, S: u16, w: u16, z: u16)
    requires W != 0, w != 0, z != 0, fmul(a, w) == fmul(S, W)
    ensures fmul(a, finv(fmul(W, z))) == fmul(S, finv(fmul(w, z)))
{
    let D1 = fmul(W, z); let D2 = fmul(w, z);
    lemma_fmul_nz(W, z); lemma_fmul_nz(w, z); lemma_fmul_nz(D1, D2);
    let u = finv(D1); let v = finv(D2);
    lemma_finv(D1); lemma_finv(D2);
    let D = fmul(D1, D2);
    // (a * u) * D == a * D2
    lemma_fmul_assoc(a, u, D);
    lemma_fmul_assoc(u, D1, D2);
    lemma_fmul_one(D2);
    assert(fmul(fmul(a, u), D) == fmul(a, D2));
    // (S * v) * D == S * D1
    lemma_fmul_comm(D1, D2);
    lemma_fmul_assoc(S, v, fmul(D2, D1));
    lemma_fmul_assoc(v, D2, D1);
    lemma_fmul_one(D1);
    assert(fmul(fmul(S, v), D) == fmul(S, D1));
    // a * (w * z) == (a * w) * z == (S * W) * z == S * (W * z)
    lemma_fmul_assoc(a, w, z);
    lemma_fmul_assoc(S, W, z);
    lemma_fmul_cancel(fmul(a, u), fmul(S, v), D);
}
// the Lagrange term of the point m + i, evaluated at j < m, is the entry (j, i) of the high-rate encoding matrix
pub proof fn lemma_lterm_high(tm: nat, t: nat, vals: Seq<u16>, j: int, i: int)
    requires tm <= 15, t <= 16, p2i(tm) < p2i(t), 0 <= j < p2i(tm), 0 <= i < p2i(t) - p2i(tm)
    ensures lterm(hr_pts(p2i(tm), p2i(t)), vals, j as u16, i) == fmul(g_high(p2i(tm), j, i), vals[i])
{
    let m = p2i(tm); let n = p2i(t);
    lemma_p2i_bound(tm);
    lemma_p2i_mono(t, 16); assert(p2i(16) == 65536) by (compute_only);
    let C = hr_pts(m, n);
    let y = j as u16; let p16 = (m + i) as u16;
    lemma_iota_split(m, n);
    assert(C[i] == p16);
    assert forall|q: int| 0 <= q < C.len() implies C[q] != y by { assert(C[q] as int == m + q); }
    lemma_upper_prod_low(tm, t, j);
    lemma_upper_prod_high(tm, t, i);
    let W = lden(C, i); let S = sm(m, p16); let a = eprod(C, y); let w = wm(m);
    if W == 0 { lemma_fmul_zero(S); }
    lemma_lterm_closed(C, vals, y, i, W);
    let z = (y ^ p16) as u16;
    lemma_fmul_comm(w, a);
    lemma_cross_div(a, W, S, w, z);
}

// ---------------------------------------------------------------- 4. the codeword polynomial
// values at the points m, m + 1, ..., n - 1: the originals, then zeros
pub open spec fn hr_vals(orig: Seq<Sv>, cnt: int, k: int) -> Seq<u16> {
    Seq::new(cnt as nat, |i: int| if i < orig.len() { orig[i][k] } else { 0u16 })
}
pub open spec fn hr_F(orig: Seq<Sv>, m: int, n: int, k: int) -> Seq<u16> {
    lagp(hr_pts(m, n), hr_vals(orig, n - m, k), n - m)
}
// sizes: m = np2(rc) = 2^tm with tm <= 15
pub proof fn lemma_high_sizes(oc: int, rc: int) -> (tm: nat)
    requires oc >= 1, rc >= 1, np2(rc) + oc <= 65536
    ensures tm <= 15, np2(rc) == p2i(tm), rc <= np2(rc), rc <= 65536, is_pow2(np2(rc)), 65536int % np2(rc) == 0
{
    assert(rc <= 65536) by { reveal(np2); }
    lemma_np2_exp(rc)
}
pub proof fn lemma_F_deg(orig: Seq<Sv>, m: int, n: int, k: int)
    requires 0 <= m <= n <= 65536
    ensures deg_lt(hr_F(orig, m, n, k), n - m)
{
    lemma_iota_split(m, n);
    lemma_lagp_deg(hr_pts(m, n), hr_vals(orig, n - m, k), n - m);
}
// F on the upper part [m, n): originals, then zeros
pub proof fn lemma_F_data(orig: Seq<Sv>, m: int, n: int, k: int, i: int)
    requires 0 <= m <= n <= 65536, 0 <= i < n - m
    ensures peval(hr_F(orig, m, n, k), (m + i) as u16) == if i < orig.len() { orig[i][k] } else { 0u16 }
{
    lemma_iota_split(m, n);
    let C = hr_pts(m, n);
    assert(C[i] == (m + i) as u16);
    lemma_lagp_at_point(C, hr_vals(orig, n - m, k), i);
}
// the closed form of the encoder (cauchy::theorem_enc_high_cauchy) holds for all m = np2(rc) outputs of the final FFT, not only
// for the rc of them that are kept as recovery shards
pub proof fn lemma_enc_high_cauchy_full(orig: Seq<Sv>, rc: int, len: nat, j: int, k: int)
    requires 1 <= orig.len(), 1 <= rc, np2(rc) + orig.len() <= 65536, rect(orig, len), 0 <= j < np2(rc), 0 <= k < len
    ensures enc_high_ref(orig, rc, len, skew_spec()).len() == np2(rc),
        enc_high_ref(orig, rc, len, skew_spec())[j][k] == msum(row_high(np2(rc), j), orig, k)
{
    let oc = orig.len() as int; let m = np2(rc); let skew = skew_spec();
    let t = lemma_high_sizes(oc, rc);
    let q = (oc + m - 1) / m; let wc = q * m;
    vstd::arithmetic::div_mod::lemma_fundamental_div_mod(oc + m - 1, m);
    vstd::arithmetic::div_mod::lemma_mod_bound(oc + m - 1, m);
    lemma_mult(q, m);
    assert(oc <= wc <= oc + m - 1);
    assert(wc >= m) by {
        if q <= 0 { assert(q * m <= 0) by (nonlinear_arith) requires q <= 0, m >= 1; }
        else { assert(q * m >= m) by (nonlinear_arith) requires q >= 1, m >= 1; }
    }
    lemma_mult_step(wc, 65536, m);
    let w = padded(orig, wc, len);
    assert(rect(w, len) && w.len() == wc);
    let acc = enc_high_acc(w, m, wc, skew);
    lemma_high_acc(w, t, wc, len, j, k);
    lemma_mult(0, m);
    theorem_fft_eval(acc, 0, len, j, k);
    assert(enc_high_ref(orig, rc, len, skew) == fft_ref(acc, 0, skew));
    lemma_fft_len(acc, m / 2, 0, skew);
    let F = mterm(row_high(m, j), w, k); let G = mterm(row_high(m, j), orig, k);
    assert forall|i: int| 0 <= i < oc implies #[trigger] F(i) == G(i) by {
        assert(w[i] == orig[i]);
    }
    assert forall|i: int| oc <= i < wc implies #[trigger] F(i) == 0 by {
        assert(w[i] == v_zero(len));
        lemma_fmul_zero(row_high(m, j)(i));
    }
    lemma_xsum_zero_tail(F, oc, wc);
    lemma_xsum_ext(F, G, oc);
}
// F on [0, m): the outputs of the reference encoder (the first rc of them are the recovery shards)
pub proof fn lemma_F_recovery(orig: Seq<Sv>, rc: int, len: nat, t: nat, k: int, j: int)
    requires orig.len() >= 1, rc >= 1, t <= 16, np2(rc) + orig.len() <= p2i(t), p2i(t) <= 65536, rect(orig, len), 0 <= k < len, 0 <= j < np2(rc)
    ensures peval(hr_F(orig, np2(rc), p2i(t), k), j as u16) == enc_high_ref(orig, rc, len, skew_spec())[j][k]
{
    let oc = orig.len() as int; let m = np2(rc); let n = p2i(t);
    let tm = lemma_high_sizes(oc, rc);
    let C = hr_pts(m, n); let vals = hr_vals(orig, n - m, k);
    let y = j as u16;
    lemma_iota_split(m, n);
    lemma_lagp_eval(C, vals, n - m, y);
    let f = ltermf(C, vals, y); let g = mterm(row_high(m, j), orig, k);
    assert forall|i: int| 0 <= i < oc implies #[trigger] f(i) == g(i) by {
        lemma_lterm_high(tm, t, vals, j, i);
        assert(f(i) == lterm(C, vals, y, i));
        assert(vals[i] == orig[i][k]);
        assert(row_high(m, j)(i) == g_high(m, j, i));
        assert(g(i) == fmul(g_high(m, j, i), orig[i][k]));
    }
    assert forall|i: int| oc <= i < n - m implies #[trigger] f(i) == 0 by {
        lemma_lterm_high(tm, t, vals, j, i);
        assert(f(i) == lterm(C, vals, y, i));
        assert(vals[i] == 0);
        lemma_fmul_zero(g_high(m, j, i));
    }
    lemma_xsum_zero_tail(f, oc, n - m);
    lemma_xsum_ext(f, g, oc);
    lemma_enc_high_cauchy_full(orig, rc, len, j, k);
}
// THEOREM (the high-rate codeword is a polynomial of degree < n - m): for every power of two n >= m + oc the vector
//   ( all m outputs of the encoder's final FFT | the oc originals | zeros up to n )   at the points 0, 1, ..., n - 1
// consists of the values of ONE polynomial of degree < n - m, m = np2(rc)
pub proof fn theorem_high_codeword_degree(orig: Seq<Sv>, rc: int, len: nat, t: nat, k: int)
    requires orig.len() >= 1, rc >= 1, t <= 16, np2(rc) + orig.len() <= p2i(t), rect(orig, len), 0 <= k < len
    ensures ({
        let m = np2(rc); let n = p2i(t); let F = hr_F(orig, m, n, k);
        &&& n <= 65536 && deg_lt(F, n - m)
        &&& forall|j: int| 0 <= j < m ==> peval(F, j as u16) == #[trigger] enc_high_ref(orig, rc, len, skew_spec())[j][k]
        &&& forall|i: int| 0 <= i < orig.len() ==> peval(F, (m + i) as u16) == #[trigger] orig[i][k]
        &&& forall|p: int| m + orig.len() <= p < n ==> #[trigger] peval(F, p as u16) == 0
    })
{
    let oc = orig.len() as int; let m = np2(rc); let n = p2i(t); let F = hr_F(orig, m, n, k);
    lemma_p2i_mono(t, 16); assert(p2i(16) == 65536) by (compute_only);
    let tm = lemma_high_sizes(oc, rc);
    lemma_F_deg(orig, m, n, k);
    assert forall|j: int| 0 <= j < m implies peval(F, j as u16) == #[trigger] enc_high_ref(orig, rc, len, skew_spec())[j][k] by {
        lemma_F_recovery(orig, rc, len, t, k, j);
    }
    assert forall|i: int| 0 <= i < orig.len() implies peval(F, (m + i) as u16) == #[trigger] orig[i][k] by {
        lemma_F_data(orig, m, n, k, i);
    }
    assert forall|p: int| m + orig.len() <= p < n implies #[trigger] peval(F, p as u16) == 0 by {
        lemma_F_data(orig, m, n, k, p - m);
    }
}

// ---------------------------------------------------------------- 5. the erasure indicator of the high-rate decoder
pub open spec fn hr_er0(rcv: Set<nat>, oc: int, rc: int) -> Seq<u16> { dec_er0(rcv, rc, np2(rc), np2(rc) + oc, 1, 0) }
pub open spec fn none_marked_from(e: Seq<u16>, lo: int) -> bool { forall|j: int| lo <= j < 65536 ==> e[j] == 0 }

pub proof fn lemma_hr_er0_facts(rcv: Set<nat>, oc: int, rc: int, n: int)
    requires oc >= 1, 1 <= rc <= np2(rc), np2(rc) + oc <= n <= 65536
    ensures ({
        let e = hr_er0(rcv, oc, rc); let m = np2(rc);
        &&& e.len() == 65536
        &&& forall|j: int| 0 <= j < 65536 ==> e[j] == 0 || e[j] == 1
        &&& none_marked_from(e, m + oc)
        &&& eseq(e, n).len() == (rc - rcnt(rcv, 0, rc)) + (m - rc) + (oc - rcnt(rcv, m, m + oc))
    })
{
    let e = hr_er0(rcv, oc, rc); let m = np2(rc);
    lemma_cnt_rcv_seg(e, rcv, 0, rc);
    lemma_cnt_full_seg(e, rc, m);
    lemma_cnt_rcv_seg(e, rcv, m, m + oc);
    lemma_cnt_zero_seg(e, m + oc, n);
    lemma_ecnt_split(e, 0, rc, m);
    lemma_ecnt_split(e, 0, m, m + oc);
    lemma_ecnt_split(e, 0, m + oc, n);
    lemma_eseq_len(e, n);
}
// the locator when nothing at or above n is marked: no constant factor
pub proof fn lemma_rp_unmarked(e: Seq<u16>, x: int, lo: int, hi: int)
    requires forall|j: int| lo <= j < hi ==> e[j] == 0
    ensures rp(e, x, lo, hi) == one()
    decreases hi - lo
{
    if hi > lo {
        lemma_rp_unmarked(e, x, lo, hi - 1);
        assert(e[hi - 1] == 0);
        lemma_fmul_one(one());
    }
}
pub proof fn lemma_locator_value0(e: Seq<u16>, x: int, n: int)
    requires e.len() == 65536, 0 <= x < n <= 65536, none_marked_from(e, n)
    ensures
        e[x] == 0 ==> rp(e, x, 0, 65536) == peval(proots(eseq(e, n)), x as u16),
        e[x] != 0 ==> rp(e, x, 0, 65536) == peval(pderiv(proots(eseq(e, n))), x as u16) && peval(proots(eseq(e, n)), x as u16) == 0,
{
    lemma_rp_split(e, x, 0, n, 65536);
    lemma_rp_unmarked(e, x, n, 65536);
    lemma_fmul_one(rp(e, x, 0, n));
    lemma_rp_inrange(e, x, n);
}

// ---------------------------------------------------------------- 6. the polynomial G held by the decoder
pub open spec fn hr_ein(rcv: Set<nat>, oc: int, rc: int, n: int) -> Seq<u16> { proots(eseq(hr_er0(rcv, oc, rc), n)) }
pub open spec fn hr_G(orig: Seq<Sv>, rc: int, rcv: Set<nat>, n: int, k: int) -> Seq<u16> {
    pmulp(hr_F(orig, np2(rc), n, k), hr_ein(rcv, orig.len() as int, rc, n))
}
pub open spec fn hr_w1(inp: Seq<Sv>, rcv: Set<nat>, oc: int, rc: int, len: nat) -> Seq<Sv> {
    let m = np2(rc);
    dec_w1(inp, rcv, dec_er(rcv, rc, m, m + oc, 1, 0), rc, m, m + oc, len)
}
// hypotheses on the work vector: received positions hold the shards of the codeword; nothing is required
// about any other position (dec_w1 reads the received positions only)
pub open spec fn high_setup(orig: Seq<Sv>, rc: int, len: nat, rcv: Set<nat>, inp: Seq<Sv>) -> bool {
    let oc = orig.len() as int; let m = np2(rc);
    &&& oc >= 1 && rc >= 1 && m + oc <= 65536 && rect(orig, len)
    &&& is_pow2(inp.len() as int) && m + oc <= inp.len() <= 65536 && rect(inp, len)
    &&& forall|j: int| 0 <= j < rc && rcv.contains(j as nat) ==> inp[j] == #[trigger] enc_high_ref(orig, rc, len, skew_spec())[j]
    &&& forall|i: int| 0 <= i < oc && rcv.contains((m + i) as nat) ==> inp[m + i] == #[trigger] orig[i]
}

// w1 holds the values of G on the whole work range
pub proof fn lemma_hr_w1_is_G(orig: Seq<Sv>, rc: int, len: nat, rcv: Set<nat>, inp: Seq<Sv>, t: nat, x: int, k: int)
    requires high_setup(orig, rc, len, rcv, inp), t <= 16, inp.len() == p2i(t), 0 <= x < inp.len(), 0 <= k < len
    ensures hr_w1(inp, rcv, orig.len() as int, rc, len)[x][k] == peval(hr_G(orig, rc, rcv, inp.len() as int, k), x as u16)
{
    let oc = orig.len() as int; let m = np2(rc); let n = inp.len() as int;
    let xu = x as u16;
    let tm = lemma_high_sizes(oc, rc);
    lemma_hr_er0_facts(rcv, oc, rc, n);
    let e = hr_er0(rcv, oc, rc);
    let er = dec_er(rcv, rc, m, m + oc, 1, 0);
    assert(er == eval_poly_ref(e));
    let w1 = hr_w1(inp, rcv, oc, rc, len);
    let fp = hr_F(orig, m, n, k); let ein = hr_ein(rcv, oc, rc, n);
    let fx = peval(fp, xu); let ex = peval(ein, xu);
    lemma_peval_pmulp(fp, ein, xu);
    assert(peval(hr_G(orig, rc, rcv, n, k), xu) == fmul(fx, ex));
    lemma_locator_value0(e, x, n);
    if dec_active(rcv, rc, m, m + oc, x) {
        assert(e[x] == 0);
        assert(w1[x] == v_mul(inp[x], er[x]));
        assert(w1[x][k] == gf_mul_log(inp[x][k], er[x]));
        lemma_locator_mul(e, x, inp[x][k]);
        if x < rc {
            lemma_F_recovery(orig, rc, len, t, k, x);
            assert(inp[x] == enc_high_ref(orig, rc, len, skew_spec())[x]);
        } else {
            let i = x - m;
            lemma_F_data(orig, m, n, k, i);
            assert(inp[m + i] == orig[i]);
        }
        assert(inp[x][k] == fx);
    } else {
        assert(w1[x] == v_zero(len));
        assert(w1[x][k] == 0);
        if m + oc <= x {
            lemma_F_data(orig, m, n, k, x - m);
            assert(fx == 0);
            lemma_fmul_zero(ex);
        } else {
            assert(e[x] != 0);
            assert(ex == 0);
            lemma_fmul_zero(fx);
        }
    }
}

// G has degree < n when at least oc shards were received
pub proof fn lemma_hr_G_degree(orig: Seq<Sv>, rc: int, rcv: Set<nat>, n: int, k: int)
    requires orig.len() >= 1, rc >= 1, np2(rc) + orig.len() <= n <= 65536,
        rcnt(rcv, 0, rc) + rcnt(rcv, np2(rc), np2(rc) + orig.len()) >= orig.len(),
    ensures deg_lt(hr_G(orig, rc, rcv, n, k), n)
{
    let oc = orig.len() as int; let m = np2(rc);
    let tm = lemma_high_sizes(oc, rc);
    lemma_hr_er0_facts(rcv, oc, rc, n);
    let e = hr_er0(rcv, oc, rc);
    let pts = eseq(e, n);
    let fp = hr_F(orig, m, n, k); let ein = hr_ein(rcv, oc, rc, n);
    lemma_F_deg(orig, m, n, k);
    lemma_proots_deg(pts);
    let l = pts.len() as int;
    assert(l <= m);
    lemma_deg_pmulp(fp, ein, n - m, l + 1);
    lemma_deg_mono(pmulp(fp, ein), n - m + l, n);
}

// value and derivative of G at an erased original
pub proof fn lemma_hr_G_at_erased(orig: Seq<Sv>, rc: int, rcv: Set<nat>, n: int, idx: int, k: int)
    requires orig.len() >= 1, rc >= 1, np2(rc) + orig.len() <= n <= 65536,
        0 <= idx < orig.len(), !rcv.contains((np2(rc) + idx) as nat)
    ensures ({
        let g = hr_G(orig, rc, rcv, n, k); let e = hr_er0(rcv, orig.len() as int, rc); let x = np2(rc) + idx;
        &&& peval(g, x as u16) == 0
        &&& peval(pderiv(g), x as u16) == fmul(orig[idx][k], rp(e, x, 0, 65536))
    })
{
    let oc = orig.len() as int; let m = np2(rc);
    let x = m + idx;
    let xu = x as u16;
    let tm = lemma_high_sizes(oc, rc);
    lemma_hr_er0_facts(rcv, oc, rc, n);
    let e = hr_er0(rcv, oc, rc);
    let fp = hr_F(orig, m, n, k); let ein = hr_ein(rcv, oc, rc, n);
    let fx = peval(fp, xu); let ex = peval(ein, xu); let dex = peval(pderiv(ein), xu); let dfx = peval(pderiv(fp), xu);
    lemma_F_data(orig, m, n, k, idx);
    assert(fx == orig[idx][k]);
    assert(e[x] != 0);
    lemma_locator_value0(e, x, n);
    assert(ex == 0);
    // value
    lemma_peval_pmulp(fp, ein, xu);
    lemma_fmul_zero(fx);
    // derivative
    lemma_product_rule(fp, ein, xu);
    lemma_fmul_zero(dfx);
    lemma_xor_basic(fmul(fx, dex), 0, 0);
}

// ---------------------------------------------------------------- 7. the decoder pipeline
pub proof fn lemma_dec_high_slot(orig: Seq<Sv>, rc: int, len: nat, rcv: Set<nat>, inp: Seq<Sv>, idx: int, k: int)
    requires high_setup(orig, rc, len, rcv, inp),
        rcnt(rcv, 0, rc) + rcnt(rcv, np2(rc), np2(rc) + orig.len()) >= orig.len(),
        0 <= idx < orig.len(), !rcv.contains((np2(rc) + idx) as nat), 0 <= k < len
    ensures dec_high_ref(inp, rcv, orig.len() as int, rc, len, skew_spec(), idx)[k] == orig[idx][k]
{
    let oc = orig.len() as int; let m = np2(rc); let n = inp.len() as int;
    let skew = skew_spec();
    let x = m + idx;
    let xu = x as u16;
    let tm = lemma_high_sizes(oc, rc);
    let t = lemma_pow2_exp16(n);
    let e = hr_er0(rcv, oc, rc);
    let er = dec_er(rcv, rc, m, m + oc, 1, 0);
    assert(er == eval_poly_ref(e));
    lemma_hr_er0_facts(rcv, oc, rc, n);
    let w1 = hr_w1(inp, rcv, oc, rc, len);
    let w2 = ifft_ref(w1, 0, skew);
    let w3 = deriv_ref(w2);
    let w4 = fft_ref(w3, 0, skew);
    assert(w4 == dec_w4(inp, rcv, rc, m, m + oc, 1, 0, len, skew));
    assert(rect(w1, len) && w1.len() == n);
    crate::vspec::slots::lemma_ifft_ref_trunc(w1, 0, skew, len, 0);
    let g = hr_G(orig, rc, rcv, n, k);
    let g2 = column(w2, k);
    let pts = iota(n);
    assert(pts.no_duplicates());
    lemma_hr_G_degree(orig, rc, rcv, n, k);
    lemma_mult(0, n);
    assert forall|i: int| 0 <= i < pts.len() implies peval(g, #[trigger] pts[i]) == eval_lch(g2, pts[i]) by {
        lemma_hr_w1_is_G(orig, rc, len, rcv, inp, t, i, k);
        theorem_ifft_interp(w1, 0, len, i, k);
    }
    lemma_lch_interp_any(g2, g, pts, xu);
    lemma_peq_pderiv(g, lchpoly(g2));
    lemma_peval_ext(pderiv(g), pderiv(lchpoly(g2)), xu);
    theorem_deriv_ref(w2, len, xu, k);
    theorem_fft_eval(w3, 0, len, x, k);
    crate::vspec::slots::lemma_fft_ref_trunc(w3, 0, skew, len, 0);
    lemma_hr_G_at_erased(orig, rc, rcv, n, idx, k);
    let p = rp(e, x, 0, 65536);
    lemma_xor_basic(fmul(orig[idx][k], p), 0, 0);
    assert(w4[x][k] == fmul(orig[idx][k], p));
    lemma_locator_mul(e, x, orig[idx][k]);
    let l2 = (65535 - er[x]) as u16;
    assert(dec_high_ref(inp, rcv, oc, rc, len, skew, idx) == v_mul(w4[x], l2));
    assert(v_mul(w4[x], l2)[k] == gf_mul_log(w4[x][k], l2));
}

// THEOREM (C01, high rate, reference level): with at least original_count received shards of a codeword, the reference decoder
// returns every missing original.  Positions that were not received may hold anything, and so may the positions at or above
// np2(rc) + oc: dec_w1 reads `inp` at received shard positions only (dec_active), everything else enters as zero, so no
// hypothesis about the zero-filled tail of the real work buffer is needed at this level.
pub proof fn theorem_dec_high_correct(orig: Seq<Sv>, rc: int, len: nat, rcv: Set<nat>, inp: Seq<Sv>, idx: int, k: int)
    requires
        orig.len() >= 1, rc >= 1, np2(rc) + orig.len() <= 65536, rect(orig, len),
        is_pow2(inp.len() as int), np2(rc) + orig.len() <= inp.len() <= 65536, rect(inp, len),
        forall|j: int| 0 <= j < rc && rcv.contains(j as nat) ==> inp[j] == #[trigger] enc_high_ref(orig, rc, len, skew_spec())[j],
        forall|i: int| 0 <= i < orig.len() && rcv.contains((np2(rc) + i) as nat) ==> inp[np2(rc) + i] == #[trigger] orig[i],
        rcnt(rcv, 0, rc) + rcnt(rcv, np2(rc), np2(rc) + orig.len()) >= orig.len(),
        0 <= idx < orig.len(), !rcv.contains((np2(rc) + idx) as nat), 0 <= k < len,
    ensures dec_high_ref(inp, rcv, orig.len() as int, rc, len, skew_spec(), idx)[k] == orig[idx][k]
{
    lemma_dec_high_slot(orig, rc, len, rcv, inp, idx, k);
}

// ---------------------------------------------------------------- the "enough shards" hypothesis as a set cardinality
// received shard positions of the high-rate work layout: recoveries [0, rc) and originals [m, m + oc)
pub open spec fn received_shards_high(rcv: Set<nat>, oc: int, rc: int) -> Set<nat> {
    rcv.filter(|p: nat| p < rc || np2(rc) <= p < np2(rc) + oc)
}
pub proof fn lemma_received_count_high(rcv: Set<nat>, oc: int, rc: int)
    requires 1 <= rc <= np2(rc), oc >= 0
    ensures received_shards_high(rcv, oc, rc).len() == rcnt(rcv, 0, rc) + rcnt(rcv, np2(rc), np2(rc) + oc)
{
    let m = np2(rc);
    let a = rset(rcv, 0, rc); let b = rset(rcv, m, m + oc);
    lemma_rset(rcv, 0, rc); lemma_rset(rcv, m, m + oc);
    assert(a.disjoint(b));
    vstd::set_lib::lemma_set_disjoint_lens(a, b);
    assert(received_shards_high(rcv, oc, rc) =~= a + b);
}
// the theorem with the count stated as a cardinality
pub proof fn theorem_dec_high_correct_card(orig: Seq<Sv>, rc: int, len: nat, rcv: Set<nat>, inp: Seq<Sv>, idx: int, k: int)
    requires
        orig.len() >= 1, rc >= 1, np2(rc) + orig.len() <= 65536, rect(orig, len),
        is_pow2(inp.len() as int), np2(rc) + orig.len() <= inp.len() <= 65536, rect(inp, len),
        forall|j: int| 0 <= j < rc && rcv.contains(j as nat) ==> inp[j] == #[trigger] enc_high_ref(orig, rc, len, skew_spec())[j],
        forall|i: int| 0 <= i < orig.len() && rcv.contains((np2(rc) + i) as nat) ==> inp[np2(rc) + i] == #[trigger] orig[i],
        received_shards_high(rcv, orig.len() as int, rc).len() >= orig.len(),
        0 <= idx < orig.len(), !rcv.contains((np2(rc) + idx) as nat), 0 <= k < len,
    ensures dec_high_ref(inp, rcv, orig.len() as int, rc, len, skew_spec(), idx)[k] == orig[idx][k]
{
    let tm = lemma_high_sizes(orig.len() as int, rc);
    lemma_received_count_high(rcv, orig.len() as int, rc);
    theorem_dec_high_correct(orig, rc, len, rcv, inp, idx, k);
}
