use vstd::prelude::*;
use crate::vspec::gf::*;
use crate::vspec::arith::*;
use crate::vspec::xform::*;
use crate::vspec::codec::*;
use crate::vspec::envelope::{np2, lemma_np2, lemma_np2_pow2};
use crate::vspec::linear::rect;
use crate::vspec::tables::skew_spec;
use crate::vspec::locator::*;
use crate::vspec::slots::*;
use crate::vspec::declow::{theorem_dec_low_correct, lemma_oc_bound};
use crate::vspec::dechigh::{theorem_dec_high_correct, lemma_high_sizes};
// Slot-local decoding theorems. A shard of shard_bytes bytes occupies only the first w = shard_bytes / 2 symbol slots of
// its block-aligned buffer; the remaining slots of the last block hold stale bytes which differ between the encoder's and
// the decoder's buffers. So the work vector agrees with the codeword on the slots k' < w only. Slots never interact
// (vspec::slots), hence that is enough: cut everything to w slots, apply the whole-vector theorems at length w, and
// transport the result back through the commutation lemmas.

// two symbol vectors that agree on their first w slots have equal w-slot prefixes
pub proof fn lemma_prefix_eq(a: Sv, b: Sv, w: int)
    requires 0 <= w <= a.len(), w <= b.len(), forall|k: int| 0 <= k < w ==> a[k] == b[k]
    ensures a.subrange(0, w) == b.subrange(0, w)
{
    assert(a.subrange(0, w) =~= b.subrange(0, w));
}

pub proof fn theorem_dec_low_slots(orig: Seq<Sv>, rc: int, len: nat, w: int, rcv: Set<nat>, inp: Seq<Sv>, idx: int, k: int)
    requires
        orig.len() >= 1, rc >= 1, np2(orig.len() as int) + rc <= 65536, rect(orig, len), 0 <= w <= len,
        is_pow2(inp.len() as int), np2(orig.len() as int) + rc <= inp.len() <= 65536, rect(inp, len),
        forall|i: int, k1: int| 0 <= i < orig.len() && rcv.contains(i as nat) && 0 <= k1 < w ==> inp[i][k1] == orig[i][k1],
        forall|j: int, k1: int| 0 <= j < rc && rcv.contains((np2(orig.len() as int) + j) as nat) && 0 <= k1 < w
            ==> inp[np2(orig.len() as int) + j][k1] == enc_low_ref(orig, rc, len, skew_spec())[j][k1],
        rcnt(rcv, 0, orig.len() as int) + rcnt(rcv, np2(orig.len() as int), np2(orig.len() as int) + rc) >= orig.len(),
        0 <= idx < orig.len(), !rcv.contains(idx as nat), 0 <= k < w,
    ensures dec_low_ref(inp, rcv, orig.len() as int, rc, len, skew_spec(), idx)[k] == orig[idx][k]
{
    let oc = orig.len() as int; let m = np2(oc); let skew = skew_spec(); let wn = w as nat;
    lemma_oc_bound(oc, rc);
    lemma_np2(oc); lemma_np2_pow2(oc);
    let o2 = trunc(orig, w); let i2 = trunc(inp, w);
    lemma_trunc_rect(orig, len, w);
    lemma_trunc_rect(inp, len, w);
    let enc = enc_low_ref(orig, rc, len, skew);
    lemma_enc_low_ref_trunc(orig, rc, len, skew, w);
    assert(enc_low_ref(o2, rc, wn, skew) == trunc(enc, w));
    assert(enc.len() == rc);
    assert forall|i: int| 0 <= i < o2.len() && rcv.contains(i as nat) implies i2[i] == #[trigger] o2[i] by {
        assert(inp[i].len() == len && orig[i].len() == len);
        lemma_prefix_eq(inp[i], orig[i], w);
    }
    assert forall|j: int| 0 <= j < rc && rcv.contains((np2(o2.len() as int) + j) as nat)
        implies i2[np2(o2.len() as int) + j] == #[trigger] enc_low_ref(o2, rc, wn, skew)[j] by {
        assert(inp[m + j].len() == len);
        assert(trunc(enc, w)[j] == enc[j].subrange(0, w));
        // every recovery vector has len slots
        assert(enc[j].len() == len) by {
            lemma_bstart_le(j, m);
            lemma_pow2_basic(m);
            lemma_padded_trunc(orig, m, len, w);
            lemma_ifft_ref_trunc(padded(orig, m, len), 0, skew, len, w);
            lemma_fft_ref_trunc(enc_low_c0(orig, len, skew), bstart(j, m) + m, skew, len, w);
            let f = fft_ref(enc_low_c0(orig, len, skew), bstart(j, m) + m, skew);
            assert(enc[j] == f[j - bstart(j, m)]);
        }
        lemma_prefix_eq(inp[m + j], enc[j], w);
    }
    theorem_dec_low_correct(o2, rc, wn, rcv, i2, idx, k);
    lemma_dec_core_trunc(inp, rcv, oc, m, m + rc, 0, 1, len, skew, idx, w);
    assert(dec_low_ref(i2, rcv, oc, rc, wn, skew, idx) == dec_low_ref(inp, rcv, oc, rc, len, skew, idx).subrange(0, w));
    assert(dec_low_ref(inp, rcv, oc, rc, len, skew, idx).len() == len) by {
        lemma_dec_core_len(inp, rcv, oc, m, m + rc, 0, 1, len, skew, idx);
    }
    assert(o2[idx][k] == orig[idx][k]);
}

// the decoder output has len slots
pub proof fn lemma_dec_core_len(inp: Seq<Sv>, rcv: Set<nat>, a: int, m: int, e: int, mid: u16, tail: u16, len: nat, skew: Seq<u16>, i: int)
    requires rect(inp, len), is_pow2(inp.len() as int), 0 <= i < inp.len()
    ensures dec_core(inp, rcv, a, m, e, mid, tail, len, skew, i).len() == len
{
    let er = dec_er(rcv, a, m, e, mid, tail);
    let w1 = dec_w1(inp, rcv, er, a, m, e, len);
    assert(rect(w1, len));
    lemma_ifft_ref_trunc(w1, 0, skew, len, 0);
    let w2 = ifft_ref(w1, 0, skew);
    lemma_deriv_trunc(w2, w2.len() as int, len, 0);
    let w3 = deriv_ref(w2);
    lemma_fft_ref_trunc(w3, 0, skew, len, 0);
}

pub proof fn theorem_dec_high_slots(orig: Seq<Sv>, rc: int, len: nat, w: int, rcv: Set<nat>, inp: Seq<Sv>, idx: int, k: int)
    requires
        orig.len() >= 1, rc >= 1, np2(rc) + orig.len() <= 65536, rect(orig, len), 0 <= w <= len,
        is_pow2(inp.len() as int), np2(rc) + orig.len() <= inp.len() <= 65536, rect(inp, len),
        forall|j: int, k1: int| 0 <= j < rc && rcv.contains(j as nat) && 0 <= k1 < w
            ==> inp[j][k1] == enc_high_ref(orig, rc, len, skew_spec())[j][k1],
        forall|i: int, k1: int| 0 <= i < orig.len() && rcv.contains((np2(rc) + i) as nat) && 0 <= k1 < w
            ==> inp[np2(rc) + i][k1] == orig[i][k1],
        rcnt(rcv, 0, rc) + rcnt(rcv, np2(rc), np2(rc) + orig.len()) >= orig.len(),
        0 <= idx < orig.len(), !rcv.contains((np2(rc) + idx) as nat), 0 <= k < w,
    ensures dec_high_ref(inp, rcv, orig.len() as int, rc, len, skew_spec(), idx)[k] == orig[idx][k]
{
    let oc = orig.len() as int; let m = np2(rc); let skew = skew_spec(); let wn = w as nat;
    let tm = lemma_high_sizes(oc, rc);
    lemma_pow2_basic(m);
    let q = (oc + m - 1) / m; let wc = q * m;
    vstd::arithmetic::div_mod::lemma_fundamental_div_mod(oc + m - 1, m);
    vstd::arithmetic::div_mod::lemma_mod_bound(oc + m - 1, m);
    lemma_mult(q, m);
    assert(oc <= wc <= oc + m - 1);
    assert(wc >= m) by {
        if q <= 0 { assert(q * m <= 0) by (nonlinear_arith) requires q <= 0, m >= 1; }
        else { assert(q * m >= m) by (nonlinear_arith) requires q >= 1, m >= 1; }
    }
    let o2 = trunc(orig, w); let i2 = trunc(inp, w);
    lemma_trunc_rect(orig, len, w);
    lemma_trunc_rect(inp, len, w);
    let enc = enc_high_ref(orig, rc, len, skew);
    lemma_enc_high_ref_trunc(orig, rc, len, skew, w);
    assert(enc_high_ref(o2, rc, wn, skew) == trunc(enc, w));
    // shape of the recovery vectors: np2(rc) vectors of len slots
    assert(enc.len() == m && rect(enc, len)) by {
        lemma_padded_trunc(orig, wc, len, w);
        let p = padded(orig, wc, len);
        lemma_enc_high_acc_trunc(p, m, wc, skew, len, w);
        lemma_fft_ref_trunc(enc_high_acc(p, m, wc, skew), 0, skew, len, w);
    }
    assert forall|j: int| 0 <= j < rc && rcv.contains(j as nat) implies i2[j] == #[trigger] enc_high_ref(o2, rc, wn, skew)[j] by {
        assert(inp[j].len() == len && enc[j].len() == len);
        assert(trunc(enc, w)[j] == enc[j].subrange(0, w));
        lemma_prefix_eq(inp[j], enc[j], w);
    }
    assert forall|i: int| 0 <= i < o2.len() && rcv.contains((np2(rc) + i) as nat) implies i2[np2(rc) + i] == #[trigger] o2[i] by {
        assert(inp[m + i].len() == len && orig[i].len() == len);
        lemma_prefix_eq(inp[m + i], orig[i], w);
    }
    theorem_dec_high_correct(o2, rc, wn, rcv, i2, idx, k);
    lemma_dec_core_trunc(inp, rcv, rc, m, m + oc, 1, 0, len, skew, m + idx, w);
    assert(dec_high_ref(i2, rcv, oc, rc, wn, skew, idx) == dec_high_ref(inp, rcv, oc, rc, len, skew, idx).subrange(0, w));
    assert(dec_high_ref(inp, rcv, oc, rc, len, skew, idx).len() == len) by {
        lemma_dec_core_len(inp, rcv, rc, m, m + oc, 1, 0, len, skew, m + idx);
    }
    assert(o2[idx][k] == orig[idx][k]);
}
