use vstd::prelude::*;
use crate::vspec::gf::*;
use crate::vspec::gfth::*;
use crate::vspec::scale::*;
use crate::vspec::tables::*;
// GF(2^16) field laws for the product of two *symbols* (Cantor-basis representation), from first principles:
// fmul(a, b) = icantor(pmul(cantor(a), cantor(b))).  Addition is XOR.  Nothing is assumed.

pub open spec fn fmul(a: u16, b: u16) -> u16 { smul(a, b) }
pub open spec fn one() -> u16 { icantor(1) }

pub proof fn lemma_xor_basic(a: u16, b: u16, c: u16)
    ensures a ^ 0 == a, 0 ^ a == a, a ^ a == 0, a ^ b == b ^ a, (a ^ b) ^ c == a ^ (b ^ c), (a ^ b) ^ b == a,
        (a ^ b == 0) <==> (a == b)
{
    assert(a ^ 0 == a && 0 ^ a == a && a ^ a == 0 && a ^ b == b ^ a && (a ^ b) ^ c == a ^ (b ^ c) && (a ^ b) ^ b == a) by (bit_vector);
    assert((a ^ b == 0) <==> (a == b)) by (bit_vector);
}

// ---------------------------------------------------------------- polynomial representation
pub proof fn lemma_pmul_comm(b: u16, c: u16)
    ensures pmul(b, c) == pmul(c, b)
{
    lemma_pmul_commute(1, b, c);
    lemma_pmul_one(b); lemma_pmul_one(c);
}
pub proof fn lemma_pmul_assoc(a: u16, b: u16, c: u16)
    ensures pmul(pmul(a, b), c) == pmul(a, pmul(b, c))
{
    lemma_pmul_comm(a, b);
    lemma_pmul_commute(b, a, c);
    lemma_pmul_comm(pmul(b, c), a);
}
pub proof fn lemma_pmul_one_r(a: u16)
    ensures pmul(a, 1) == a
{
    lemma_pmul_comm(a, 1); lemma_pmul_one(a);
}
pub proof fn lemma_pmul_zero(a: u16)
    ensures pmul(0, a) == 0, pmul(a, 0) == 0
{
    lemma_pm_zero(a, 16); lemma_pmul_comm(a, 0);
}
pub proof fn lemma_pmul_xor_r(a: u16, b: u16, c: u16)
    ensures pmul(a, b ^ c) == pmul(a, b) ^ pmul(a, c)
{
    lemma_pmul_comm(a, b ^ c); lemma_pmul_comm(a, b); lemma_pmul_comm(a, c);
    lemma_pm_xor(b, c, a, 16);
}
// inverse of a non-zero polynomial-representation element
pub open spec fn pinv(c: u16) -> u16 { gpow((65535 - dlog(c)) as nat) }
pub proof fn lemma_pinv(c: u16)
    requires c != 0
    ensures pmul(c, pinv(c)) == 1, pinv(c) != 0
{
    lemma_dlog(c);
    let l = dlog(c);
    lemma_gpow_pmul(l, (65535 - l) as nat);
    lemma_per_ground();
    lemma_gpow_nz((65535 - l) as nat);
}

// ---------------------------------------------------------------- symbols
pub proof fn lemma_cantor_zero()
    ensures cantor(0) == 0, icantor(0) == 0
{
    lemma_lin_zero(0, |i: int| cb(i)); lemma_lin_zero(0, |j: int| icb(j));
}
pub proof fn lemma_one()
    ensures one() == 1u16, cantor(1) == 1u16, cantor(one()) == 1u16
{
    assert(icantor(1u16) == 1u16) by (compute_only);
    assert(cantor(1u16) == 1u16) by (compute_only);
}
pub proof fn lemma_icantor_nz(x: u16)
    requires x != 0
    ensures icantor(x) != 0
{
    lemma_cantor_inverse(x); lemma_cantor_zero();
}
pub proof fn lemma_fmul_comm(a: u16, b: u16)
    ensures fmul(a, b) == fmul(b, a)
{
    lemma_pmul_comm(cantor(a), cantor(b));
}
pub proof fn lemma_fmul_assoc(a: u16, b: u16, c: u16)
    ensures fmul(fmul(a, b), c) == fmul(a, fmul(b, c))
{
    lemma_cantor_inverse(pmul(cantor(a), cantor(b)));
    lemma_cantor_inverse(pmul(cantor(b), cantor(c)));
    lemma_pmul_assoc(cantor(a), cantor(b), cantor(c));
}
pub proof fn lemma_fmul_xor_l(a: u16, b: u16, c: u16)
    ensures fmul(a ^ b, c) == fmul(a, c) ^ fmul(b, c)
{
    lemma_smul_xor(a, b, c);
}
pub proof fn lemma_fmul_xor_r(a: u16, b: u16, c: u16)
    ensures fmul(a, b ^ c) == fmul(a, b) ^ fmul(a, c)
{
    lemma_fmul_comm(a, b ^ c); lemma_fmul_comm(a, b); lemma_fmul_comm(a, c);
    lemma_smul_xor(b, c, a);
}
pub proof fn lemma_fmul_one(a: u16)
    ensures fmul(a, one()) == a, fmul(one(), a) == a
{
    lemma_one();
    lemma_pmul_one_r(cantor(a));
    lemma_cantor_inverse(a);
    lemma_fmul_comm(a, one());
}
pub proof fn lemma_fmul_zero(a: u16)
    ensures fmul(a, 0) == 0, fmul(0, a) == 0
{
    lemma_smul_zero(a); lemma_fmul_comm(a, 0);
}
// multiplicative inverse of a non-zero symbol
pub open spec fn finv(a: u16) -> u16 { icantor(pinv(cantor(a))) }
pub proof fn lemma_finv(a: u16)
    requires a != 0
    ensures fmul(a, finv(a)) == one(), fmul(finv(a), a) == one(), finv(a) != 0
{
    lemma_cantor_nz(a);
    lemma_pinv(cantor(a));
    lemma_cantor_inverse(pinv(cantor(a)));
    lemma_fmul_comm(a, finv(a));
    lemma_icantor_nz(pinv(cantor(a)));
}
pub proof fn lemma_no_zero_div(a: u16, b: u16)
    requires fmul(a, b) == 0
    ensures a == 0 || b == 0
{
    if a != 0 {
        lemma_finv(a);
        // b == (finv(a) * a) * b == finv(a) * (a * b) == 0
        lemma_fmul_one(b);
        lemma_fmul_assoc(finv(a), a, b);
        lemma_fmul_zero(finv(a));
    }
}
pub proof fn lemma_fmul_nz(a: u16, b: u16)
    requires a != 0, b != 0
    ensures fmul(a, b) != 0
{
    if fmul(a, b) == 0 { lemma_no_zero_div(a, b); }
}
// cancellation: a * c == b * c with c != 0 gives a == b
pub proof fn lemma_fmul_cancel(a: u16, b: u16, c: u16)
    requires c != 0, fmul(a, c) == fmul(b, c)
    ensures a == b
{
    lemma_fmul_xor_l(a, b, c);
    lemma_xor_basic(fmul(a, c), fmul(b, c), 0);
    lemma_no_zero_div(a ^ b, c);
    lemma_xor_basic(a, b, 0);
}
// squaring is additive (characteristic 2)
pub proof fn lemma_frobenius(a: u16, b: u16)
    ensures fmul(a ^ b, a ^ b) == fmul(a, a) ^ fmul(b, b)
{
    lemma_fmul_xor_l(a, b, a ^ b);
    lemma_fmul_xor_r(a, a, b);
    lemma_fmul_xor_r(b, a, b);
    lemma_fmul_comm(a, b);
    let aa = fmul(a, a); let ab = fmul(a, b); let bb = fmul(b, b);
    assert((aa ^ ab) ^ (ab ^ bb) == aa ^ bb) by (bit_vector);
}
// x * (x ^ 1) == x^2 ^ x is additive in x
pub proof fn lemma_artin_schreier(a: u16, b: u16)
    ensures fmul(a ^ b, (a ^ b) ^ one()) == fmul(a, a ^ one()) ^ fmul(b, b ^ one())
{
    lemma_fmul_xor_r(a ^ b, a ^ b, one());
    lemma_fmul_xor_r(a, a, one());
    lemma_fmul_xor_r(b, b, one());
    lemma_fmul_one(a ^ b); lemma_fmul_one(a); lemma_fmul_one(b);
    lemma_frobenius(a, b);
    let aa = fmul(a, a); let bb = fmul(b, b);
    assert((aa ^ bb) ^ (a ^ b) == (aa ^ a) ^ (bb ^ b)) by (bit_vector);
}

// ---------------------------------------------------------------- link to the log-domain multiply
pub proof fn lemma_gf_mul_log_exp(s: u16, m: u16)
    ensures gf_mul_log(s, m) == fmul(s, exp_table_spec()[m as int])
{
    lemma_cantor_inverse(gpow(m as nat));
}
pub proof fn lemma_skew_L(c: u16)
    ensures c == 0 ==> skew_L(c) == 65535,
        c != 0 ==> skew_L(c) < 65535 && gpow(skew_L(c) as nat) == cantor(c) && skew_L(c) as nat == dlog(cantor(c)),
{
    if c == 0 { lemma_cantor_zero(); } else { lemma_cantor_nz(c); lemma_dlog(cantor(c)); }
}
pub proof fn lemma_gf_mul_log_L(s: u16, c: u16)
    requires c != 0
    ensures gf_mul_log(s, skew_L(c)) == fmul(s, c)
{
    lemma_skew_L(c);
}
// multiplying by the symbol that stands for g^l
pub proof fn lemma_gf_mul_log_gpow(s: u16, l: u16, c: u16)
    requires gpow(l as nat) == cantor(c)
    ensures gf_mul_log(s, l) == fmul(s, c)
{
}
