use vstd::prelude::*;
use crate::vspec::gf::*;
use crate::vspec::xform::*;
use crate::vspec::codec::*;
use crate::vspec::arith::*;
use crate::vspec::envelope::*;
use crate::vspec::linear::{rect, lemma_partner, lemma_mod_sub};
// C04 / C05: symbol slots never interact. Every reference transform commutes with keeping the first n symbol slots
// of every shard, so the first sb/2 slots of any output are a function of the first sb/2 slots of the inputs only:
// whatever the unused slots of a partial last block hold (stale bytes of earlier rounds) cannot reach a result.

pub open spec fn trunc(s: Seq<Sv>, n: int) -> Seq<Sv> { Seq::new(s.len(), |q: int| s[q].subrange(0, n)) }

pub proof fn lemma_bf_trunc(a: Sv, b: Sv, m: u16, n: int)
    requires a.len() == b.len(), 0 <= n <= a.len()
    ensures
        fft_a(a, b, m).subrange(0, n) =~= fft_a(a.subrange(0, n), b.subrange(0, n), m),
        fft_b(a, b, m).subrange(0, n) =~= fft_b(a.subrange(0, n), b.subrange(0, n), m),
        ifft_a(a, b, m).subrange(0, n) =~= ifft_a(a.subrange(0, n), b.subrange(0, n), m),
        ifft_b(a, b, m).subrange(0, n) =~= ifft_b(a.subrange(0, n), b.subrange(0, n), m),
        v_xor(a, b).subrange(0, n) =~= v_xor(a.subrange(0, n), b.subrange(0, n)),
        v_mul(a, m).subrange(0, n) =~= v_mul(a.subrange(0, n), m),
{
}

pub proof fn lemma_trunc_rect(s: Seq<Sv>, len: nat, n: int)
    requires rect(s, len), 0 <= n <= len
    ensures rect(trunc(s, n), n as nat), trunc(s, n).len() == s.len()
{
}

pub proof fn lemma_fft_layer_trunc(s: Seq<Sv>, dist: int, delta: int, skew: Seq<u16>, len: nat, n: int)
    requires rect(s, len), 0 <= n <= len, dist >= 1, (s.len() as int) % (2 * dist) == 0
    ensures
        trunc(fft_layer(s, dist, delta, skew), n) =~= fft_layer(trunc(s, n), dist, delta, skew),
        trunc(ifft_layer(s, dist, delta, skew), n) =~= ifft_layer(trunc(s, n), dist, delta, skew),
        rect(fft_layer(s, dist, delta, skew), len), rect(ifft_layer(s, dist, delta, skew), len),
        fft_layer(s, dist, delta, skew).len() == s.len(), ifft_layer(s, dist, delta, skew).len() == s.len(),
{
    let t = trunc(s, n);
    assert forall|q: int| 0 <= q < s.len() implies
        #[trigger] trunc(fft_layer(s, dist, delta, skew), n)[q] == fft_layer(t, dist, delta, skew)[q]
        && fft_layer(s, dist, delta, skew)[q].len() == len by {
        lemma_partner(q, s.len() as int, dist);
        let r = bstart(q, 2 * dist);
        let m = skew[r + dist + delta - 1];
        if q - r < dist { lemma_bf_trunc(s[q], s[q + dist], m, n); } else { lemma_bf_trunc(s[q - dist], s[q], m, n); }
    }
    assert forall|q: int| 0 <= q < s.len() implies
        #[trigger] trunc(ifft_layer(s, dist, delta, skew), n)[q] == ifft_layer(t, dist, delta, skew)[q]
        && ifft_layer(s, dist, delta, skew)[q].len() == len by {
        lemma_partner(q, s.len() as int, dist);
        let r = bstart(q, 2 * dist);
        let m = skew[r + dist + delta - 1];
        if q - r < dist { lemma_bf_trunc(s[q], s[q + dist], m, n); } else { lemma_bf_trunc(s[q - dist], s[q], m, n); }
    }
}

pub proof fn lemma_fft_from_trunc(s: Seq<Sv>, dist: int, delta: int, skew: Seq<u16>, len: nat, n: int)
    requires rect(s, len), 0 <= n <= len, dist < 1 || (is_pow2(dist) && (s.len() as int) % (2 * dist) == 0)
    ensures trunc(fft_from(s, dist, delta, skew), n) == fft_from(trunc(s, n), dist, delta, skew),
        rect(fft_from(s, dist, delta, skew), len), fft_from(s, dist, delta, skew).len() == s.len(),
    decreases dist
{
    if dist >= 1 {
        lemma_fft_layer_trunc(s, dist, delta, skew, len, n);
        if dist >= 2 { lemma_pow2_half(dist); assert(2 * (dist / 2) == dist); lemma_half_block(s.len() as int, dist / 2); }
        lemma_fft_from_trunc(fft_layer(s, dist, delta, skew), dist / 2, delta, skew, len, n);
    }
}

pub proof fn lemma_ifft_upto_trunc(s: Seq<Sv>, dist: int, delta: int, skew: Seq<u16>, len: nat, n: int)
    requires rect(s, len), 0 <= n <= len, dist <= 1 || (is_pow2(dist) && (s.len() as int) % dist == 0)
    ensures trunc(ifft_upto(s, dist, delta, skew), n) == ifft_upto(trunc(s, n), dist, delta, skew),
        rect(ifft_upto(s, dist, delta, skew), len), ifft_upto(s, dist, delta, skew).len() == s.len(),
    decreases dist
{
    if dist > 1 {
        lemma_pow2_half(dist);
        assert(2 * (dist / 2) == dist);
        if dist / 2 > 1 { lemma_half_block(s.len() as int, dist / 4); lemma_pow2_half(dist / 2); assert(4 * (dist / 4) == dist); assert(2 * (dist / 4) == dist / 2); }
        lemma_ifft_upto_trunc(s, dist / 2, delta, skew, len, n);
        lemma_fft_layer_trunc(ifft_upto(s, dist / 2, delta, skew), dist / 2, delta, skew, len, n);
    } else {
        assert(trunc(s, n).len() == s.len());
    }
}

pub proof fn lemma_fft_ref_trunc(s: Seq<Sv>, delta: int, skew: Seq<u16>, len: nat, n: int)
    requires rect(s, len), 0 <= n <= len, is_pow2(s.len() as int)
    ensures trunc(fft_ref(s, delta, skew), n) == fft_ref(trunc(s, n), delta, skew), rect(fft_ref(s, delta, skew), len), fft_ref(s, delta, skew).len() == s.len(),
{
    let l = s.len() as int;
    if l >= 2 { lemma_pow2_half(l); assert(2 * (l / 2) == l); lemma_mult(1, l); }
    lemma_fft_from_trunc(s, l / 2, delta, skew, len, n);
}
pub proof fn lemma_ifft_ref_trunc(s: Seq<Sv>, delta: int, skew: Seq<u16>, len: nat, n: int)
    requires rect(s, len), 0 <= n <= len, is_pow2(s.len() as int)
    ensures trunc(ifft_ref(s, delta, skew), n) == ifft_ref(trunc(s, n), delta, skew), rect(ifft_ref(s, delta, skew), len), ifft_ref(s, delta, skew).len() == s.len(),
{
    let l = s.len() as int;
    lemma_mult(1, l);
    lemma_ifft_upto_trunc(s, l, delta, skew, len, n);
}

pub proof fn lemma_chunk_trunc(w: Seq<Sv>, m: int, start: int, len: nat, n: int)
    requires rect(w, len), 0 <= n <= len, 0 <= start, m >= 0, start + m <= w.len()
    ensures trunc(chunk_at(w, m, start), n) =~= chunk_at(trunc(w, n), m, start), rect(chunk_at(w, m, start), len), chunk_at(w, m, start).len() == m
{
}
pub proof fn lemma_padded_trunc(o: Seq<Sv>, total: int, len: nat, n: int)
    requires rect(o, len), 0 <= n <= len, total >= o.len()
    ensures trunc(padded(o, total, len), n) =~= padded(trunc(o, n), total, n as nat), rect(padded(o, total, len), len), padded(o, total, len).len() == total
{
    assert(v_zero(len).subrange(0, n) =~= v_zero(n as nat));
}
pub proof fn lemma_vv_xor_trunc(a: Seq<Sv>, b: Seq<Sv>, len: nat, n: int)
    requires a.len() == b.len(), rect(a, len), rect(b, len), 0 <= n <= len
    ensures trunc(vv_xor(a, b), n) =~= vv_xor(trunc(a, n), trunc(b, n)), rect(vv_xor(a, b), len), vv_xor(a, b).len() == a.len()
{
    assert forall|q: int| 0 <= q < a.len() implies #[trigger] trunc(vv_xor(a, b), n)[q] == vv_xor(trunc(a, n), trunc(b, n))[q] by {
        lemma_bf_trunc(a[q], b[q], 0, n);
    }
}

pub proof fn lemma_enc_high_acc_trunc(w: Seq<Sv>, m: int, end: int, skew: Seq<u16>, len: nat, n: int)
    requires rect(w, len), 0 <= n <= len, is_pow2(m), m <= end <= w.len(), end % m == 0
    ensures trunc(enc_high_acc(w, m, end, skew), n) == enc_high_acc(trunc(w, n), m, end, skew),
        rect(enc_high_acc(w, m, end, skew), len), enc_high_acc(w, m, end, skew).len() == m,
    decreases end
{
    lemma_pow2_basic(m);
    if end <= m {
        lemma_chunk_trunc(w, m, 0, len, n);
        lemma_ifft_ref_trunc(chunk_at(w, m, 0), m, skew, len, n);
    } else {
        lemma_mult(1, m); lemma_mult_step(m, end, m);
        lemma_mod_sub(end, m);
        lemma_enc_high_acc_trunc(w, m, end - m, skew, len, n);
        lemma_chunk_trunc(w, m, end - m, len, n);
        let c = chunk_at(w, m, end - m);
        lemma_ifft_ref_trunc(c, end, skew, len, n);
        lemma_vv_xor_trunc(enc_high_acc(w, m, end - m, skew), ifft_ref(c, end, skew), len, n);
    }
}

// the first n symbol slots of the high-rate recovery are the high-rate code of the first n slots of the originals
pub proof fn lemma_enc_high_ref_trunc(o: Seq<Sv>, rc: int, len: nat, skew: Seq<u16>, n: int)
    requires rect(o, len), 0 <= n <= len, is_pow2(np2(rc)),
        ({ let m = np2(rc); let wc = ((o.len() + m - 1) / m) * m; wc % m == 0 && wc >= m && wc >= o.len() })
    ensures trunc(enc_high_ref(o, rc, len, skew), n) == enc_high_ref(trunc(o, n), rc, n as nat, skew)
{
    let m = np2(rc); let wc = ((o.len() + m - 1) / m) * m;
    lemma_padded_trunc(o, wc, len, n);
    let w = padded(o, wc, len);
    lemma_enc_high_acc_trunc(w, m, wc, skew, len, n);
    lemma_fft_ref_trunc(enc_high_acc(w, m, wc, skew), 0, skew, len, n);
}

pub proof fn lemma_enc_low_ref_trunc(o: Seq<Sv>, rc: int, len: nat, skew: Seq<u16>, n: int)
    requires rect(o, len), 0 <= n <= len, is_pow2(np2(o.len() as int)), np2(o.len() as int) >= o.len(), rc >= 0
    ensures trunc(enc_low_ref(o, rc, len, skew), n) =~= enc_low_ref(trunc(o, n), rc, n as nat, skew)
{
    let m = np2(o.len() as int);
    lemma_pow2_basic(m);
    lemma_padded_trunc(o, m, len, n);
    let p = padded(o, m, len);
    lemma_ifft_ref_trunc(p, 0, skew, len, n);
    let c0 = enc_low_c0(o, len, skew);
    assert(enc_low_c0(trunc(o, n), n as nat, skew) == trunc(c0, n));
    assert forall|j: int| 0 <= j < rc implies #[trigger] trunc(enc_low_ref(o, rc, len, skew), n)[j] == enc_low_ref(trunc(o, n), rc, n as nat, skew)[j] by {
        lemma_bstart_le(j, m);
        lemma_fft_ref_trunc(c0, bstart(j, m) + m, skew, len, n);
        let f = fft_ref(c0, bstart(j, m) + m, skew);
        assert(trunc(f, n)[j - bstart(j, m)] == f[j - bstart(j, m)].subrange(0, n));
    }
}

// formal derivative
pub proof fn lemma_deriv_trunc(s: Seq<Sv>, k: int, len: nat, n: int)
    requires rect(s, len), 0 <= n <= len, is_pow2(s.len() as int), k <= s.len()
    ensures trunc(deriv_upto(s, k), n) == deriv_upto(trunc(s, n), k), rect(deriv_upto(s, k), len), deriv_upto(s, k).len() == s.len(),
    decreases k
{
    if k > 1 {
        lemma_deriv_trunc(s, k - 1, len, n);
        let c = deriv_upto(s, k - 1);
        let i = k - 1;
        lemma_low_bit(i, s.len() as int);
        let w = low_bit(i);
        assert forall|q: int| 0 <= q < s.len() implies #[trigger] trunc(deriv_step(c, i), n)[q] == deriv_step(trunc(c, n), i)[q] && deriv_step(c, i)[q].len() == len by {
            if i - w <= q < i { lemma_bf_trunc(c[q], c[q + w], 0, n); }
        }
        assert(trunc(deriv_step(c, i), n) =~= deriv_step(trunc(c, n), i));
    } else {
        assert(trunc(s, n).len() == s.len());
    }
}

// decoder: the first n slots of every restored shard depend on the first n slots of the received shards only
pub proof fn lemma_dec_core_trunc(inp: Seq<Sv>, rcv: Set<nat>, a: int, m: int, e: int, mid: u16, tail: u16, len: nat, skew: Seq<u16>, i: int, n: int)
    requires rect(inp, len), 0 <= n <= len, is_pow2(inp.len() as int), 0 <= i < inp.len()
    ensures dec_core(inp, rcv, a, m, e, mid, tail, len, skew, i).subrange(0, n) == dec_core(trunc(inp, n), rcv, a, m, e, mid, tail, n as nat, skew, i)
{
    let er = dec_er(rcv, a, m, e, mid, tail);
    let w1 = dec_w1(inp, rcv, er, a, m, e, len);
    let w1t = dec_w1(trunc(inp, n), rcv, er, a, m, e, n as nat);
    assert(rect(w1, len));
    assert(trunc(w1, n) =~= w1t) by {
        assert forall|p: int| 0 <= p < inp.len() implies #[trigger] trunc(w1, n)[p] == w1t[p] by {
            if dec_active(rcv, a, m, e, p) { lemma_bf_trunc(inp[p], inp[p], er[p], n); }
            else { assert(v_zero(len).subrange(0, n) =~= v_zero(n as nat)); }
        }
    }
    lemma_ifft_ref_trunc(w1, 0, skew, len, n);
    let w2 = ifft_ref(w1, 0, skew);
    lemma_deriv_trunc(w2, w2.len() as int, len, n);
    let w3 = deriv_ref(w2);
    lemma_fft_ref_trunc(w3, 0, skew, len, n);
    let w4 = fft_ref(w3, 0, skew);
    assert(deriv_ref(trunc(w2, n)) == trunc(w3, n));
    lemma_bf_trunc(w4[i], w4[i], (65535 - er[i]) as u16, n);
    assert(trunc(w4, n)[i] == w4[i].subrange(0, n));
}
