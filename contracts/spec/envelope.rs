use vstd::prelude::*;
// Everything here is written from the property statements / README, not from the code.
#[verifier::opaque]
pub open spec fn np2(x: int) -> int {
    if x <= 1 { 1 } else if x <= 2 { 2 } else if x <= 4 { 4 } else if x <= 8 { 8 } else if x <= 16 { 16 } else if x <= 32 { 32 } else if x <= 64 { 64 } else if x <= 128 { 128 } else if x <= 256 { 256 } else if x <= 512 { 512 } else if x <= 1024 { 1024 } else if x <= 2048 { 2048 } else if x <= 4096 { 4096 } else if x <= 8192 { 8192 } else if x <= 16384 { 16384 } else if x <= 32768 { 32768 } else if x <= 65536 { 65536 } else { 131072 }
}
#[verifier::opaque]
pub open spec fn p2(n: int) -> int {
    if n == 0 { 1 } else if n == 1 { 2 } else if n == 2 { 4 } else if n == 3 { 8 } else if n == 4 { 16 } else if n == 5 { 32 } else if n == 6 { 64 } else if n == 7 { 128 } else if n == 8 { 256 } else if n == 9 { 512 } else if n == 10 { 1024 } else if n == 11 { 2048 } else if n == 12 { 4096 } else if n == 13 { 8192 } else if n == 14 { 16384 } else if n == 15 { 32768 } else { 65536 }
}

// README: both counts >= 1 and for some n one count <= 2^n while the other <= 65536 - 2^n
pub open spec fn envelope(o: int, r: int) -> bool {
    o >= 1 && r >= 1 && exists|n: int| 0 <= n <= 16 && #[trigger] env_at(o, r, n)
}
pub open spec fn env_at(o: int, r: int, n: int) -> bool {
    (o <= p2(n) && r <= 65536 - p2(n)) || (r <= p2(n) && o <= 65536 - p2(n))
}
// high rate: recovery_count is the power-of-two-bounded side
pub open spec fn high_env(o: int, r: int) -> bool {
    o >= 1 && r >= 1 && exists|n: int| 0 <= n <= 16 && #[trigger] high_at(o, r, n)
}
pub open spec fn high_at(o: int, r: int, n: int) -> bool { r <= p2(n) && o <= 65536 - p2(n) }
pub open spec fn low_env(o: int, r: int) -> bool {
    o >= 1 && r >= 1 && exists|n: int| 0 <= n <= 16 && #[trigger] low_at(o, r, n)
}
pub open spec fn low_at(o: int, r: int, n: int) -> bool { o <= p2(n) && r <= 65536 - p2(n) }

// C09: high rate iff np2(o) > np2(r), or equal and o <= r
pub open spec fn rule_high(o: int, r: int) -> bool {
    np2(o) > np2(r) || (np2(o) == np2(r) && o <= r)
}

#[verifier::opaque]
pub open spec fn lg(x: int) -> int {
    if x <= 1 { 0 } else if x <= 2 { 1 } else if x <= 4 { 2 } else if x <= 8 { 3 } else if x <= 16 { 4 } else if x <= 32 { 5 } else if x <= 64 { 6 } else if x <= 128 { 7 } else if x <= 256 { 8 } else if x <= 512 { 9 } else if x <= 1024 { 10 } else if x <= 2048 { 11 } else if x <= 4096 { 12 } else if x <= 8192 { 13 } else if x <= 16384 { 14 } else if x <= 32768 { 15 } else if x <= 65536 { 16 } else { 17 }
}

pub proof fn lemma_np2(x: int)
    requires 0 <= x <= 65536
    ensures np2(x) == p2(lg(x)), 0 <= lg(x) <= 16, np2(x) >= x, np2(x) >= 1, np2(x) <= 65536, x >= 2 ==> np2(x) < 2 * x,
        forall|n: int| 0 <= n <= 16 && x <= p2(n) ==> np2(x) <= #[trigger] p2(n),
        x <= 1 ==> np2(x) == 1,
{
    reveal(np2); reveal(p2); reveal(lg);
}
// facts about p2 needed where it stays opaque
pub proof fn lemma_p2(n: int)
    requires 0 <= n <= 16
    ensures 1 <= p2(n) <= 65536, n == 16 ==> p2(n) == 65536, n == 0 ==> p2(n) == 1
{
    reveal(p2);
}

// the closed forms the code uses
pub proof fn lemma_high_env(o: int, r: int)
    requires 0 <= o, 0 <= r
    ensures high_env(o, r) <==> (o >= 1 && r >= 1 && o < 65536 && r < 65536 && np2(r) + o <= 65536)
{
    reveal(np2); reveal(p2); reveal(lg);
    if o >= 1 && r >= 1 && o < 65536 && r < 65536 && np2(r) + o <= 65536 {
        lemma_np2(r);
        assert(high_at(o, r, lg(r)));
    }
    if high_env(o, r) {
        let n = choose|n: int| 0 <= n <= 16 && #[trigger] high_at(o, r, n);
        assert(r <= 65536);
        lemma_np2(r);
    }
}
pub proof fn lemma_low_env(o: int, r: int)
    requires 0 <= o, 0 <= r
    ensures low_env(o, r) <==> (o >= 1 && r >= 1 && o < 65536 && r < 65536 && np2(o) + r <= 65536)
{
    reveal(np2); reveal(p2); reveal(lg);
    if o >= 1 && r >= 1 && o < 65536 && r < 65536 && np2(o) + r <= 65536 {
        lemma_np2(o);
        assert(low_at(o, r, lg(o)));
    }
    if low_env(o, r) {
        let n = choose|n: int| 0 <= n <= 16 && #[trigger] low_at(o, r, n);
        assert(o <= 65536);
        lemma_np2(o);
    }
}
pub proof fn lemma_envelope(o: int, r: int)
    requires 0 <= o, 0 <= r
    ensures
        envelope(o, r) <==> (high_env(o, r) || low_env(o, r)),
        envelope(o, r) <==> (1 <= o <= 65536 && 1 <= r <= 65536
            && (if np2(o) <= np2(r) { np2(o) } else { np2(r) }) + (if o >= r { o } else { r }) <= 65536),
        envelope(o, r) && rule_high(o, r) ==> high_env(o, r),
        envelope(o, r) && !rule_high(o, r) ==> low_env(o, r),
{
    reveal(np2); reveal(p2); reveal(lg);
    lemma_high_env(o, r); lemma_low_env(o, r);
    if envelope(o, r) {
        let n = choose|n: int| 0 <= n <= 16 && #[trigger] env_at(o, r, n);
        if o <= p2(n) && r <= 65536 - p2(n) { assert(low_at(o, r, n)); } else { assert(high_at(o, r, n)); }
        lemma_np2(o); lemma_np2(r);
    }
    if high_env(o, r) {
        let n = choose|n: int| 0 <= n <= 16 && #[trigger] high_at(o, r, n);
        assert(env_at(o, r, n));
    }
    if low_env(o, r) {
        let n = choose|n: int| 0 <= n <= 16 && #[trigger] low_at(o, r, n);
        assert(env_at(o, r, n));
    }
    if 1 <= o <= 65536 && 1 <= r <= 65536 { lemma_np2(o); lemma_np2(r); }
}

pub proof fn lemma_np2_pow2(x: int)
    requires 0 <= x <= 65536
    ensures crate::vspec::arith::is_pow2(np2(x)), 65536int % np2(x) == 0, (65536int / np2(x)) * np2(x) == 65536
{
    reveal(np2);
    reveal_with_fuel(crate::vspec::arith::is_pow2, 18);
}
