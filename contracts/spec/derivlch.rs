use vstd::prelude::*;
use crate::vspec::gf::*;
use crate::vspec::field::*;
use crate::vspec::arith::*;
use crate::vspec::xform::*;
use crate::vspec::codec::vv_xor;
use crate::vspec::linear::rect;
use crate::vspec::lch::*;
use crate::vspec::poly::*;
use crate::vspec::lchpoly::*;
// The schedule `deriv_ref` (utils::formal_derivative) in the LCH basis:
//   deriv_ref(c) holds the LCH coefficients of  P + P'  where P = sum_j c[j] X_j and P' is the FORMAL DERIVATIVE of P
// (the schedule XORs into the coefficients, it does not overwrite them: identity plus derivative).
// Route: D shat_i == 1 (Cantor basis, lemma_spoly_deriv) and the product rule give the derivative of X_j as a function, dX(j, .);
// both X and dX split along the top index bit, and so does the schedule:  deriv(lo ++ hi) == (deriv(lo) ^ hi) ++ deriv(hi).

// ---------------------------------------------------------------- derivative of X_j as a function
pub open spec fn dxb(j: u16, x: u16, nb: nat) -> u16
    decreases nb
{
    if nb == 0 { 0u16 } else {
        let i = (nb - 1) as nat;
        if bit(j, i as int) { fmul(dxb(j, x, i), shat(i, x)) ^ xb(j, x, i) } else { dxb(j, x, i) }
    }
}
pub open spec fn dX(j: u16, x: u16) -> u16 { dxb(j, x, 16) }

pub proof fn lemma_dxb(j: u16, x: u16, nb: nat)
    requires nb <= 16
    ensures peval(pderiv(xpb(j, nb)), x) == dxb(j, x, nb)
    decreases nb
{
    if nb == 0 {
        lemma_pderiv_pconst(one());
        lemma_peval_zero(pderiv(pconst(one())), x);
    } else {
        let i = (nb - 1) as nat;
        lemma_dxb(j, x, i);
        lemma_product_rule(xpb(j, i), xfac(j, i), x);
        lemma_xpb_eval(j, i, x);
        lemma_xfac_eval(j, i, x);
        if bit(j, i as int) {
            lemma_spoly_deriv(i, x);
            lemma_fmul_one(xb(j, x, i));
        } else {
            lemma_pderiv_pconst(one());
            lemma_peval_zero(pderiv(pconst(one())), x);
            lemma_fmul_one(dxb(j, x, i));
            lemma_fmul_zero(xb(j, x, i));
            lemma_xor_basic(dxb(j, x, i), 0, 0);
        }
    }
}
pub proof fn lemma_dX(j: u16, x: u16)
    ensures peval(pderiv(xpoly(j)), x) == dX(j, x)
{
    lemma_dxb(j, x, 16);
}
pub proof fn lemma_dxb_low(j: u16, j2: u16, x: u16, nb: nat)
    requires nb <= 16, forall|i: int| 0 <= i < nb ==> bit(j, i) == bit(j2, i)
    ensures dxb(j, x, nb) == dxb(j2, x, nb)
    decreases nb
{
    if nb > 0 { lemma_dxb_low(j, j2, x, (nb - 1) as nat); lemma_xb_low(j, j2, x, (nb - 1) as nat); }
}
pub proof fn lemma_dxb_zero(x: u16, nb: nat)
    requires nb <= 16
    ensures dxb(0, x, nb) == 0
    decreases nb
{
    if nb > 0 {
        lemma_dxb_zero(x, (nb - 1) as nat);
        let i = (nb - 1) as u16;
        assert((0u16 >> i) & 1 != 1) by (bit_vector);
    }
}
// dX_{j + 2^e} == dX_j * shat_e + X_j   for j < 2^e
pub proof fn lemma_dxb_high(j: u16, x: u16, e: nat, nb: nat)
    requires e <= 15, j < p2(e), e < nb <= 16
    ensures dxb((j | p2(e)) as u16, x, nb) == fmul(dxb(j, x, nb), shat(e, x)) ^ xb(j, x, nb)
    decreases nb
{
    let ee = e as u16;
    let jh = (j | p2(e)) as u16;
    let i = (nb - 1) as nat; let ii = i as u16;
    if nb == e + 1 {
        assert forall|i2: int| 0 <= i2 < e implies bit(jh, i2) == bit(j, i2) by {
            let i3 = i2 as u16;
            assert(((j | (1u16 << ee)) >> i3) & 1 == (j >> i3) & 1) by (bit_vector) requires i3 < ee, ee <= 15;
        }
        lemma_xb_low(jh, j, x, e);
        lemma_dxb_low(jh, j, x, e);
        assert(((j | (1u16 << ee)) >> ee) & 1 == 1 && (j >> ee) & 1 != 1) by (bit_vector) requires j < (1u16 << ee), ee <= 15;
        lemma_fmul_one(xb(j, x, e));
    } else {
        lemma_dxb_high(j, x, e, i);
        assert(((j | (1u16 << ee)) >> ii) & 1 != 1 && (j >> ii) & 1 != 1) by (bit_vector) requires j < (1u16 << ee), ee < ii, ii <= 15;
        lemma_fmul_one(xb(j, x, i));
    }
}

// ---------------------------------------------------------------- derivative of an LCH expansion as a function
pub open spec fn deval_upto(c: Seq<u16>, x: u16, n: int) -> u16
    decreases n
{
    if n <= 0 { 0 } else { deval_upto(c, x, n - 1) ^ fmul(c[n - 1], dX((n - 1) as u16, x)) }
}
pub proof fn lemma_lchp_deriv(c: Seq<u16>, n: int, x: u16)
    ensures peval(pderiv(lchp(c, n)), x) == deval_upto(c, x, n)
    decreases n
{
    if n > 0 {
        let j = (n - 1) as u16;
        lemma_lchp_deriv(c, n - 1, x);
        lemma_peval_pderiv_padd(lchp(c, n - 1), pscale(c[n - 1], xpoly(j)), x);
        lemma_peval_pderiv_pscale(c[n - 1], xpoly(j), x);
        lemma_dX(j, x);
    } else {
        assert(pderiv(pzero()) =~= pzero());
    }
}
pub proof fn lemma_deval_ext(a: Seq<u16>, b: Seq<u16>, x: u16, n: int)
    requires forall|j: int| 0 <= j < n ==> a[j] == b[j]
    ensures deval_upto(a, x, n) == deval_upto(b, x, n)
    decreases n
{
    if n > 0 { lemma_deval_ext(a, b, x, n - 1); }
}
pub proof fn lemma_deval_split(c: Seq<u16>, hi: Seq<u16>, x: u16, e: nat, n: int)
    requires e <= 15, 0 <= n <= p2i(e), forall|j: int| 0 <= j < n ==> hi[j] == c[j + p2i(e)]
    ensures deval_upto(c, x, p2i(e) + n)
        == deval_upto(c, x, p2i(e)) ^ (fmul(deval_upto(hi, x, n), shat(e, x)) ^ eval_upto(hi, x, n))
    decreases n
{
    lemma_p2i(e);
    let h = p2i(e);
    let sh = shat(e, x);
    if n > 0 {
        lemma_deval_split(c, hi, x, e, n - 1);
        let j = (n - 1) as u16;
        let jh = (h + n - 1) as u16;
        let ee = e as u16;
        assert((j | (1u16 << ee)) as u32 == j as u32 + (1u16 << ee) as u32) by (bit_vector) requires j < (1u16 << ee), ee <= 15;
        assert(jh == (j | p2(e)) as u16);
        lemma_dxb_high(j, x, e, 16);
        let cj = hi[n - 1];
        assert(c[h + n - 1] == cj);
        let dxj = dX(j, x); let xj = X(j, x);
        lemma_fmul_xor_r(cj, fmul(dxj, sh), xj);
        lemma_fmul_assoc(cj, dxj, sh);
        let d0 = deval_upto(c, x, h);
        let dh = deval_upto(hi, x, n - 1); let eh = eval_upto(hi, x, n - 1);
        lemma_fmul_xor_l(dh, fmul(cj, dxj), sh);
        let a = fmul(dh, sh); let q = fmul(fmul(cj, dxj), sh); let r = fmul(cj, xj);
        assert((d0 ^ (a ^ eh)) ^ (q ^ r) == d0 ^ ((a ^ q) ^ (eh ^ r))) by (bit_vector);
        assert(deval_upto(c, x, h + n) == deval_upto(c, x, h + n - 1) ^ fmul(c[h + n - 1], dX(jh, x)));
    } else {
        lemma_fmul_zero(sh);
        lemma_xor0();
        lemma_xor_basic(deval_upto(c, x, h), 0, 0);
    }
}

// ---------------------------------------------------------------- the schedule is recursive
pub proof fn lemma_low_bit_pow2(h: int)
    requires is_pow2(h)
    ensures low_bit(h) == h
    decreases h
{
    lemma_pow2_basic(h);
    if h > 1 { lemma_low_bit_pow2(h / 2); }
}
pub proof fn lemma_low_bit_shift(h: int, i: int)
    requires is_pow2(h), 1 <= i < h
    ensures low_bit(h + i) == low_bit(i)
    decreases i
{
    lemma_pow2_basic(h);
    lemma_pow2_half(h);
    if i % 2 == 1 {
        assert((h + i) % 2 == 1);
    } else {
        lemma_low_bit_shift(h / 2, i / 2);
        assert((h + i) / 2 == h / 2 + i / 2);
        assert((h + i) % 2 == 0);
    }
}
// steps 1 .. K-1 (K <= h) work inside the lower half
pub proof fn lemma_deriv_lo(s: Seq<Sv>, h: int, kk: int)
    requires s.len() == 2 * h, is_pow2(h), kk <= h
    ensures deriv_upto(s, kk) =~= deriv_upto(s.subrange(0, h), kk) + s.subrange(h, 2 * h)
    decreases kk
{
    let lo = s.subrange(0, h); let hi = s.subrange(h, 2 * h);
    lemma_pow2_basic(h);
    if kk > 1 {
        let i = kk - 1;
        lemma_deriv_lo(s, h, kk - 1);
        let a = deriv_upto(lo, kk - 1);
        lemma_deriv_len(lo, kk - 1);
        lemma_deriv_len(s, kk - 1);
        let cur = deriv_upto(s, kk - 1);
        assert(cur == a + hi);
        lemma_low_bit(i, h);
        let w = low_bit(i);
        let l = deriv_step(cur, i); let r = deriv_step(a, i) + hi;
        assert(l.len() == r.len());
        assert forall|q: int| 0 <= q < l.len() implies l[q] == r[q] by {
            if i - w <= q < i {
                assert(cur[q] == a[q] && cur[q + w] == a[q + w]);
            }
        }
        assert(l =~= r);
    } else {
        assert(s =~= lo + hi);
    }
}
// steps h+1 .. h+K-1 work inside the upper half exactly as steps 1 .. K-1 would
pub proof fn lemma_deriv_hi(s: Seq<Sv>, h: int, kk: int)
    requires s.len() == 2 * h, is_pow2(h), 1 <= kk <= h
    ensures deriv_upto(s, h + kk)
        =~= deriv_upto(s, h + 1).subrange(0, h) + deriv_upto(deriv_upto(s, h + 1).subrange(h, 2 * h), kk)
    decreases kk
{
    let base = deriv_upto(s, h + 1);
    lemma_deriv_len(s, h + 1);
    let f = base.subrange(0, h); let bh = base.subrange(h, 2 * h);
    lemma_pow2_basic(h);
    if kk > 1 {
        let ip = kk - 1; let i = h + ip;
        lemma_deriv_hi(s, h, kk - 1);
        let b = deriv_upto(bh, kk - 1);
        lemma_deriv_len(bh, kk - 1);
        lemma_deriv_len(s, h + kk - 1);
        let cur = deriv_upto(s, h + kk - 1);
        assert(cur == f + b);
        lemma_low_bit_shift(h, ip);
        lemma_low_bit(ip, h);
        let w = low_bit(ip);
        assert(low_bit(i) == w);
        assert(deriv_upto(s, h + kk) == deriv_step(cur, i));
        let l = deriv_step(cur, i); let r = f + deriv_step(b, ip);
        assert(l.len() == r.len());
        assert forall|q: int| 0 <= q < l.len() implies l[q] == r[q] by {
            if i - w <= q < i {
                assert(cur[q] == b[q - h] && cur[q + w] == b[q - h + w]);
            }
        }
        assert(l =~= r);
    } else {
        assert(base =~= f + bh);
    }
}
// deriv(lo ++ hi) == (deriv(lo) ^ hi) ++ deriv(hi)
pub proof fn lemma_deriv_split(s: Seq<Sv>, h: int)
    requires s.len() == 2 * h, is_pow2(h)
    ensures deriv_ref(s) =~= vv_xor(deriv_ref(s.subrange(0, h)), s.subrange(h, 2 * h)) + deriv_ref(s.subrange(h, 2 * h))
{
    let lo = s.subrange(0, h); let hi = s.subrange(h, 2 * h);
    lemma_pow2_basic(h);
    lemma_deriv_lo(s, h, h);
    lemma_low_bit_pow2(h);
    let d = deriv_upto(lo, h);
    lemma_deriv_len(lo, h);
    let cur = deriv_upto(s, h);
    assert(cur == d + hi);
    let base = deriv_upto(s, h + 1);
    assert(base == deriv_step(cur, h));
    assert(base.subrange(0, h) =~= vv_xor(d, hi)) by {
        assert forall|q: int| 0 <= q < h implies base.subrange(0, h)[q] == vv_xor(d, hi)[q] by {
            assert(cur[q] == d[q] && cur[q + h] == hi[q]);
        }
    }
    assert(base.subrange(h, 2 * h) =~= hi);
    lemma_deriv_hi(s, h, h);
}

// ---------------------------------------------------------------- deriv_ref in the LCH basis
pub proof fn lemma_deriv_eval_t(c: Seq<Sv>, t: nat, w: nat, x: u16, k: int)
    requires t <= 16, c.len() == p2i(t), rect(c, w), 0 <= k < w
    ensures eval_upto(column(deriv_ref(c), k), x, p2i(t))
        == eval_upto(column(c, k), x, p2i(t)) ^ deval_upto(column(c, k), x, p2i(t))
    decreases t
{
    let g = column(c, k);
    if t == 0 {
        assert(deriv_ref(c) == c);
        lemma_dxb_zero(x, 16);
        lemma_fmul_zero(g[0]);
        lemma_xor0();
        assert(deval_upto(g, x, 0) == 0);
        assert(deval_upto(g, x, 1) == deval_upto(g, x, 0) ^ fmul(g[0], dX(0u16, x)));
        lemma_xor_basic(eval_upto(g, x, 1), 0, 0);
    } else {
        let e = (t - 1) as nat;
        lemma_p2i_pow2(e);
        let h = p2i(e);
        let lo = c.subrange(0, h); let hi = c.subrange(h, 2 * h);
        assert(rect(lo, w) && rect(hi, w));
        lemma_deriv_split(c, h);
        let dl = deriv_ref(lo); let dh = deriv_ref(hi);
        crate::vspec::slots::lemma_deriv_trunc(lo, h, w, 0);
        crate::vspec::slots::lemma_deriv_trunc(hi, h, w, 0);
        let gg = column(deriv_ref(c), k);
        let gl = column(lo, k); let gh = column(hi, k); let ggl = column(dl, k); let ggh = column(dh, k);
        let sh = shat(e, x);
        lemma_deriv_len(c, 2 * h);
        assert forall|j: int| 0 <= j < h implies gg[j] == ggl[j] ^ fmul(gh[j], one()) by {
            lemma_fmul_one(gh[j]);
            assert(deriv_ref(c)[j] == vv_xor(dl, hi)[j]);
        }
        assert forall|j: int| 0 <= j < h implies ggh[j] == gg[j + h] by {
            assert(deriv_ref(c)[j + h] == dh[j]);
        }
        lemma_eval_split(gg, ggh, x, e, h);
        lemma_eval_lin(gg, ggl, gh, one(), x, h);
        lemma_fmul_one(eval_upto(gh, x, h));
        lemma_deriv_eval_t(lo, e, w, x, k);
        lemma_deriv_eval_t(hi, e, w, x, k);
        lemma_eval_ext(gl, g, x, h);
        lemma_deval_ext(gl, g, x, h);
        lemma_eval_split(g, gh, x, e, h);
        lemma_deval_split(g, gh, x, e, h);
        let el = eval_upto(g, x, h); let dlv = deval_upto(g, x, h);
        let eh = eval_upto(gh, x, h); let dhv = deval_upto(gh, x, h);
        lemma_fmul_xor_l(eh, dhv, sh);
        let p = fmul(eh, sh); let q = fmul(dhv, sh);
        assert(((el ^ dlv) ^ eh) ^ (p ^ q) == (el ^ p) ^ (dlv ^ (q ^ eh))) by (bit_vector);
    }
}

// THEOREM: the schedule deriv_ref maps the LCH coefficients of P to the LCH coefficients of P + P'
pub proof fn theorem_deriv_ref(c: Seq<Sv>, w: nat, x: u16, k: int)
    requires is_pow2(c.len() as int), c.len() <= 65536, rect(c, w), 0 <= k < w
    ensures
        deriv_ref(c).len() == c.len(), rect(deriv_ref(c), w),
        eval_lch(column(deriv_ref(c), k), x)
            == eval_lch(column(c, k), x) ^ peval(pderiv(lchpoly(column(c, k))), x),
{
    let t = lemma_pow2_exp16(c.len() as int);
    lemma_deriv_eval_t(c, t, w, x, k);
    lemma_deriv_len(c, c.len() as int);
    crate::vspec::slots::lemma_deriv_trunc(c, c.len() as int, w, 0);
    lemma_lchp_deriv(column(c, k), c.len() as int, x);
}
