use vstd::prelude::*;
// GF(2^16) from the two published constants only: field polynomial 0x1002D and CANTOR_BASIS.
// Symbols are in Cantor-basis representation: symbol x stands for the field element cantor(x).
// gf_mul_log(x, m) = x * g^m.  No table of the crate is used here.

// inverse basis (derived offline; its correctness is *proved* below, not assumed)
pub open spec fn icb(j: int) -> u16 {
    if j == 0 { 0x1 } else if j == 1 { 0x4690 } else if j == 2 { 0x65d8 } else if j == 3 { 0x62d0 }
    else if j == 4 { 0x5734 } else if j == 5 { 0x45f0 } else if j == 6 { 0x53b8 } else if j == 7 { 0x1e38 }
    else if j == 8 { 0x7cae } else if j == 9 { 0x4e38 } else if j == 10 { 0x6708 } else if j == 11 { 0xc25c }
    else if j == 12 { 0x7a64 } else if j == 13 { 0x9eac } else if j == 14 { 0x1124 } else { 0x523a }
}
pub open spec fn cb(i: int) -> u16 {
    if i == 0 { 0x0001 } else if i == 1 { 0xACCA } else if i == 2 { 0x3C0E } else if i == 3 { 0x163E }
    else if i == 4 { 0xC582 } else if i == 5 { 0xED2E } else if i == 6 { 0x914C } else if i == 7 { 0x4012 }
    else if i == 8 { 0x6C98 } else if i == 9 { 0x10D8 } else if i == 10 { 0x6A72 } else if i == 11 { 0xB900 }
    else if i == 12 { 0xFDB8 } else if i == 13 { 0xFB34 } else if i == 14 { 0xFF38 } else { 0x991E }
}

pub open spec fn bit(x: u16, i: int) -> bool { (x >> (i as u16)) & 1 == 1 }

// generic GF(2)-linear map given by 16 column vectors
pub open spec fn lin(x: u16, i: int, col: spec_fn(int) -> u16) -> u16
    decreases 16 - i
{
    if i >= 16 { 0 } else { (if bit(x, i) { col(i) } else { 0u16 }) ^ lin(x, i + 1, col) }
}
pub open spec fn cantor(x: u16) -> u16 { lin(x, 0, |i: int| cb(i)) }
pub open spec fn icantor(y: u16) -> u16 { lin(y, 0, |j: int| icb(j)) }

pub proof fn lemma_lin_xor(a: u16, b: u16, i: int, col: spec_fn(int) -> u16)
    requires 0 <= i <= 16
    ensures lin(a ^ b, i, col) == lin(a, i, col) ^ lin(b, i, col)
    decreases 16 - i
{
    if i < 16 {
        lemma_lin_xor(a, b, i + 1, col);
        let k = i as u16;
        assert(((a ^ b) >> k) & 1 == ((a >> k) & 1) ^ ((b >> k) & 1)) by (bit_vector);
        let c = col(i); let ra = lin(a, i + 1, col); let rb = lin(b, i + 1, col);
        assert(((a >> k) & 1 == 0 || (a >> k) & 1 == 1) && ((b >> k) & 1 == 0 || (b >> k) & 1 == 1)) by (bit_vector);
        assert(0u16 ^ 0u16 == 0u16 && 1u16 ^ 1u16 == 0u16 && 0u16 ^ 1u16 == 1u16 && 1u16 ^ 0u16 == 1u16) by (bit_vector);
        assert((c ^ ra) ^ (c ^ rb) == 0u16 ^ (ra ^ rb)) by (bit_vector);
        assert((c ^ ra) ^ (0u16 ^ rb) == c ^ (ra ^ rb)) by (bit_vector);
        assert((0u16 ^ ra) ^ (c ^ rb) == c ^ (ra ^ rb)) by (bit_vector);
        assert((0u16 ^ ra) ^ (0u16 ^ rb) == 0u16 ^ (ra ^ rb)) by (bit_vector);
    } else {
        assert(0u16 ^ 0u16 == 0u16) by (bit_vector);
    }
}

// multiplication by x modulo 0x1002D
pub open spec fn mulx(a: u16) -> u16 { if a & 0x8000 != 0 { ((a << 1) ^ 0x002D) as u16 } else { (a << 1) as u16 } }

pub proof fn lemma_mulx_xor(a: u16, b: u16) ensures mulx(a ^ b) == mulx(a) ^ mulx(b)
{
    assert(mulx(a ^ b) == mulx(a) ^ mulx(b)) by (bit_vector);
}

// a * b in GF(2)[x]/(0x1002D), polynomial representation
pub open spec fn pm(a: u16, b: u16, n: int) -> u16
    decreases n
{
    if n <= 0 { 0 } else { (if b & 1 == 1 { a } else { 0u16 }) ^ pm(mulx(a), b >> 1, n - 1) }
}
pub open spec fn pmul(a: u16, b: u16) -> u16 { pm(a, b, 16) }

pub proof fn lemma_pm_xor(a: u16, c: u16, b: u16, n: int)
    ensures pm(a ^ c, b, n) == pm(a, b, n) ^ pm(c, b, n)
    decreases n
{
    if n > 0 {
        lemma_mulx_xor(a, c);
        lemma_pm_xor(mulx(a), mulx(c), b >> 1, n - 1);
        let ra = pm(mulx(a), b >> 1, n - 1); let rc = pm(mulx(c), b >> 1, n - 1);
        assert(((a ^ c) ^ (ra ^ rc)) == ((a ^ ra) ^ (c ^ rc))) by (bit_vector);
        assert((0u16 ^ (ra ^ rc)) == ((0u16 ^ ra) ^ (0u16 ^ rc))) by (bit_vector);
    } else {
        assert(0u16 ^ 0u16 == 0u16) by (bit_vector);
    }
}

// g^m with g = x (0x0002): m-fold multiplication by x, exactly the LFSR of `initialize_exp_log`
pub open spec fn gpow(m: nat) -> u16
    decreases m
{
    if m == 0 { 1 } else { mulx(gpow((m - 1) as nat)) }
}

pub open spec fn gf_mul_log(x: u16, m: u16) -> u16 { icantor(pmul(cantor(x), gpow(m as nat))) }

pub proof fn lemma_gf_linear(a: u16, b: u16, m: u16)
    ensures gf_mul_log(a ^ b, m) == gf_mul_log(a, m) ^ gf_mul_log(b, m)
{
    lemma_lin_xor(a, b, 0, |i: int| cb(i));
    lemma_pm_xor(cantor(a), cantor(b), gpow(m as nat), 16);
    lemma_lin_xor(pmul(cantor(a), gpow(m as nat)), pmul(cantor(b), gpow(m as nat)), 0, |j: int| icb(j));
}

// icantor really inverts cantor on the 16 unit vectors (ground facts), hence everywhere by linearity
pub proof fn lemma_icb_units()
    ensures forall|j: int| 0 <= j < 16 ==> #[trigger] cantor(icb(j)) == (1u16 << (j as u16))
{
    assert(cantor(icb(0)) == 1u16 << 0u16) by (compute_only);
    assert(cantor(icb(1)) == 1u16 << 1u16) by (compute_only);
    assert(cantor(icb(2)) == 1u16 << 2u16) by (compute_only);
    assert(cantor(icb(3)) == 1u16 << 3u16) by (compute_only);
    assert(cantor(icb(4)) == 1u16 << 4u16) by (compute_only);
    assert(cantor(icb(5)) == 1u16 << 5u16) by (compute_only);
    assert(cantor(icb(6)) == 1u16 << 6u16) by (compute_only);
    assert(cantor(icb(7)) == 1u16 << 7u16) by (compute_only);
    assert(cantor(icb(8)) == 1u16 << 8u16) by (compute_only);
    assert(cantor(icb(9)) == 1u16 << 9u16) by (compute_only);
    assert(cantor(icb(10)) == 1u16 << 10u16) by (compute_only);
    assert(cantor(icb(11)) == 1u16 << 11u16) by (compute_only);
    assert(cantor(icb(12)) == 1u16 << 12u16) by (compute_only);
    assert(cantor(icb(13)) == 1u16 << 13u16) by (compute_only);
    assert(cantor(icb(14)) == 1u16 << 14u16) by (compute_only);
    assert(cantor(icb(15)) == 1u16 << 15u16) by (compute_only);
}


pub proof fn lemma_gf_zero(m: u16)
    ensures gf_mul_log(0, m) == 0
{
    lemma_lin_zero(0, |i: int| cb(i));
    lemma_pm_zero(gpow(m as nat), 16);
    lemma_lin_zero(0, |j: int| icb(j));
}
pub proof fn lemma_lin_zero(i: int, col: spec_fn(int) -> u16)
    requires 0 <= i <= 16
    ensures lin(0, i, col) == 0
    decreases 16 - i
{
    if i < 16 {
        lemma_lin_zero(i + 1, col);
        let k = i as u16;
        assert((0u16 >> k) & 1 == 0) by (bit_vector);
        assert(0u16 ^ 0u16 == 0u16) by (bit_vector);
    }
}
pub proof fn lemma_pm_zero(b: u16, n: int)
    ensures pm(0, b, n) == 0
    decreases n
{
    if n > 0 {
        assert(mulx(0u16) == 0u16) by (bit_vector);
        lemma_pm_zero(b >> 1, n - 1);
        assert(0u16 ^ 0u16 == 0u16) by (bit_vector);
    }
}
