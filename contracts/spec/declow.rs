use vstd::prelude::*;
use crate::vspec::gf::*;
use crate::vspec::field::*;
use crate::vspec::arith::*;
use crate::vspec::xform::*;
use crate::vspec::codec::*;
use crate::vspec::envelope::{np2, lemma_np2, lemma_np2_pow2};
use crate::vspec::linear::rect;
use crate::vspec::lch::*;
use crate::vspec::poly::*;
use crate::vspec::lchpoly::*;
use crate::vspec::tables::skew_spec;
use crate::vspec::walsh::eval_poly_ref;
use crate::vspec::derivlch::*;
use crate::vspec::locator::*;
// C01 for the low-rate code at the level of the reference algorithms: any original_count of the shards restore every missing original.
//   F      codeword polynomial of a slot: deg < m, F(i) = orig[i] (i < oc), F(i) = 0 on the padding [oc, m), F(m + j) = recovery j
//   e_in   product of (x ^ p) over the erased work positions p < n (n = decoder work size)
//   C      product of (x ^ p) over all p >= n, the same non-zero constant for every x < n
//   G      = C * F * e_in, degree < m + #erased <= n
// The decoder's w1 holds G on [0, n); IFFT gives its LCH coefficients, deriv_ref those of G + G', FFT evaluates; at an erased
// original x: G(x) = 0 and G'(x) = C * F(x) * e_in'(x) = F(x) * locator(x); the final log-domain multiply divides by locator(x).

// ---------------------------------------------------------------- 1. the codeword polynomial
pub proof fn lemma_oc_bound(oc: int, rc: int)
    requires oc >= 1, rc >= 1, np2(oc) + rc <= 65536
    ensures oc <= 65536, oc <= np2(oc)
{
    reveal(np2);
}
pub open spec fn cw_coeffs(orig: Seq<Sv>, len: nat, k: int) -> Seq<u16> { column(enc_low_c0(orig, len, skew_spec()), k) }
pub open spec fn cwv(orig: Seq<Sv>, len: nat, k: int, p: int) -> u16 { eval_lch(cw_coeffs(orig, len, k), p as u16) }

pub proof fn lemma_cw_shape(orig: Seq<Sv>, len: nat)
    requires orig.len() >= 1, orig.len() <= 65536, rect(orig, len)
    ensures ({
        let m = np2(orig.len() as int); let c0 = enc_low_c0(orig, len, skew_spec());
        &&& is_pow2(m) && orig.len() <= m <= 65536 && 65536int % m == 0
        &&& c0.len() == m && rect(c0, len)
        &&& rect(padded(orig, m, len), len) && padded(orig, m, len).len() == m
    })
{
    let oc = orig.len() as int; let m = np2(oc);
    lemma_np2(oc); lemma_np2_pow2(oc);
    let pad = padded(orig, m, len);
    assert(rect(pad, len));
    lemma_mult(1, m);
    crate::vspec::inverse::lemma_ifft_upto_rect(pad, m, 0, skew_spec(), len);
}
pub proof fn lemma_cw_orig(orig: Seq<Sv>, len: nat, k: int, i: int)
    requires orig.len() >= 1, orig.len() <= 65536, rect(orig, len), 0 <= k < len, 0 <= i < np2(orig.len() as int)
    ensures cwv(orig, len, k, i) == if i < orig.len() { orig[i][k] } else { 0u16 }
{
    let oc = orig.len() as int; let m = np2(oc);
    lemma_cw_shape(orig, len);
    let pad = padded(orig, m, len);
    lemma_mult(0, m);
    theorem_ifft_interp(pad, 0, len, i, k);
}
pub proof fn lemma_cw_recovery(orig: Seq<Sv>, rc: int, len: nat, k: int, j: int)
    requires orig.len() >= 1, rc >= 1, np2(orig.len() as int) + rc <= 65536, rect(orig, len), 0 <= k < len, 0 <= j < rc
    ensures cwv(orig, len, k, np2(orig.len() as int) + j) == enc_low_ref(orig, rc, len, skew_spec())[j][k]
{
    let oc = orig.len() as int; let m = np2(oc);
    lemma_oc_bound(oc, rc);
    lemma_np2(oc);
    lemma_cw_shape(orig, len);
    let c0 = enc_low_c0(orig, len, skew_spec());
    let b = bstart(j, m);
    lemma_bstart_le(j, m);
    lemma_mult(1, m);
    lemma_mod_add(b, m, m);
    lemma_mult_step(b + m, 65536, m);
    theorem_fft_eval(c0, b + m, len, j - b, k);
    assert(b + m + (j - b) == m + j);
}

// ---------------------------------------------------------------- 2. the erasure indicator of the low-rate decoder
pub open spec fn lr_er0(rcv: Set<nat>, oc: int, rc: int) -> Seq<u16> { dec_er0(rcv, oc, np2(oc), np2(oc) + rc, 0, 1) }

pub proof fn lemma_cnt_rcv_seg(e: Seq<u16>, rcv: Set<nat>, lo: int, hi: int)
    requires 0 <= lo <= hi <= e.len(), forall|j: int| lo <= j < hi ==> ((#[trigger] e[j]) != 0) == !rcv.contains(j as nat)
    ensures ecnt(e, lo, hi) + rcnt(rcv, lo, hi) == hi - lo
    decreases hi - lo
{
    if hi > lo { lemma_cnt_rcv_seg(e, rcv, lo, hi - 1); }
}
pub proof fn lemma_cnt_zero_seg(e: Seq<u16>, lo: int, hi: int)
    requires 0 <= lo <= hi <= e.len(), forall|j: int| lo <= j < hi ==> (#[trigger] e[j]) == 0
    ensures ecnt(e, lo, hi) == 0
    decreases hi - lo
{
    if hi > lo { lemma_cnt_zero_seg(e, lo, hi - 1); }
}
pub proof fn lemma_cnt_full_seg(e: Seq<u16>, lo: int, hi: int)
    requires 0 <= lo <= hi <= e.len(), forall|j: int| lo <= j < hi ==> (#[trigger] e[j]) != 0
    ensures ecnt(e, lo, hi) == hi - lo
    decreases hi - lo
{
    if hi > lo { lemma_cnt_full_seg(e, lo, hi - 1); }
}
pub proof fn lemma_er0_facts(rcv: Set<nat>, oc: int, rc: int, n: int)
    requires 1 <= oc <= np2(oc), rc >= 1, np2(oc) + rc <= n <= 65536
    ensures ({
        let e = lr_er0(rcv, oc, rc); let m = np2(oc);
        &&& e.len() == 65536
        &&& forall|j: int| 0 <= j < 65536 ==> e[j] == 0 || e[j] == 1
        &&& all_marked_from(e, n)
        &&& eseq(e, n).len() == (oc - rcnt(rcv, 0, oc)) + (rc - rcnt(rcv, m, m + rc)) + (n - m - rc)
    })
{
    let e = lr_er0(rcv, oc, rc); let m = np2(oc);
    lemma_cnt_rcv_seg(e, rcv, 0, oc);
    lemma_cnt_zero_seg(e, oc, m);
    lemma_cnt_rcv_seg(e, rcv, m, m + rc);
    lemma_cnt_full_seg(e, m + rc, n);
    lemma_ecnt_split(e, 0, oc, m);
    lemma_ecnt_split(e, 0, m, m + rc);
    lemma_ecnt_split(e, 0, m + rc, n);
    lemma_eseq_len(e, n);
}

// ---------------------------------------------------------------- 3. the polynomial G held by the decoder
pub open spec fn lr_F(orig: Seq<Sv>, len: nat, k: int) -> Seq<u16> { lchpoly(cw_coeffs(orig, len, k)) }
pub open spec fn lr_ein(rcv: Set<nat>, oc: int, rc: int, n: int) -> Seq<u16> { proots(eseq(lr_er0(rcv, oc, rc), n)) }
pub open spec fn lr_G(orig: Seq<Sv>, rc: int, len: nat, rcv: Set<nat>, n: int, t: nat, k: int) -> Seq<u16> {
    pscale(ctail(t), pmulp(lr_F(orig, len, k), lr_ein(rcv, orig.len() as int, rc, n)))
}
pub open spec fn lr_w1(inp: Seq<Sv>, rcv: Set<nat>, oc: int, rc: int, len: nat) -> Seq<Sv> {
    let m = np2(oc);
    dec_w1(inp, rcv, dec_er(rcv, oc, m, m + rc, 0, 1), oc, m, m + rc, len)
}
// what the theorem assumes about the work vector
pub open spec fn low_setup(orig: Seq<Sv>, rc: int, len: nat, rcv: Set<nat>, inp: Seq<Sv>) -> bool {
    let oc = orig.len() as int; let m = np2(oc);
    &&& oc >= 1 && rc >= 1 && m + rc <= 65536 && rect(orig, len)
    &&& is_pow2(inp.len() as int) && m + rc <= inp.len() <= 65536 && rect(inp, len)
    &&& forall|i: int| 0 <= i < oc && rcv.contains(i as nat) ==> inp[i] == #[trigger] orig[i]
    &&& forall|j: int| 0 <= j < rc && rcv.contains((m + j) as nat) ==> inp[m + j] == #[trigger] enc_low_ref(orig, rc, len, skew_spec())[j]
}

pub proof fn lemma_mul3(a: u16, b: u16, c: u16)
    ensures fmul(a, fmul(b, c)) == fmul(c, fmul(a, b))
{
    lemma_fmul_comm(c, fmul(a, b));
    lemma_fmul_assoc(a, b, c);
}

// w1 holds the values of G on the whole work range
pub proof fn lemma_w1_is_G(orig: Seq<Sv>, rc: int, len: nat, rcv: Set<nat>, inp: Seq<Sv>, t: nat, x: int, k: int)
    requires low_setup(orig, rc, len, rcv, inp), t <= 16, inp.len() == p2i(t), 0 <= x < inp.len(), 0 <= k < len
    ensures lr_w1(inp, rcv, orig.len() as int, rc, len)[x][k] == peval(lr_G(orig, rc, len, rcv, inp.len() as int, t, k), x as u16)
{
    let oc = orig.len() as int; let m = np2(oc); let n = inp.len() as int;
    let xu = x as u16;
    lemma_oc_bound(oc, rc);
    lemma_np2(oc);
    lemma_cw_shape(orig, len);
    lemma_er0_facts(rcv, oc, rc, n);
    let e = lr_er0(rcv, oc, rc);
    let er = dec_er(rcv, oc, m, m + rc, 0, 1);
    assert(er == eval_poly_ref(e));
    let w1 = lr_w1(inp, rcv, oc, rc, len);
    let fp = lr_F(orig, len, k); let ein = lr_ein(rcv, oc, rc, n); let c = ctail(t);
    let fx = peval(fp, xu); let ex = peval(ein, xu);
    lemma_lchpoly_eval(cw_coeffs(orig, len, k), xu);
    assert(fx == cwv(orig, len, k, x));
    lemma_peval_pscale(c, pmulp(fp, ein), xu);
    lemma_peval_pmulp(fp, ein, xu);
    assert(peval(lr_G(orig, rc, len, rcv, n, t, k), xu) == fmul(c, fmul(fx, ex)));
    lemma_locator_value(e, x, t);
    if dec_active(rcv, oc, m, m + rc, x) {
        assert(e[x] == 0);
        assert(w1[x] == v_mul(inp[x], er[x]));
        assert(w1[x][k] == gf_mul_log(inp[x][k], er[x]));
        lemma_locator_mul(e, x, inp[x][k]);
        if x < oc {
            lemma_cw_orig(orig, len, k, x);
            assert(inp[x] == orig[x]);
        } else {
            let j = x - m;
            lemma_cw_recovery(orig, rc, len, k, j);
            assert(inp[m + j] == enc_low_ref(orig, rc, len, skew_spec())[j]);
        }
        assert(inp[x][k] == fx);
        lemma_mul3(fx, ex, c);
    } else {
        assert(w1[x] == v_zero(len));
        assert(w1[x][k] == 0);
        if oc <= x < m {
            lemma_cw_orig(orig, len, k, x);
            assert(fx == 0);
            lemma_fmul_zero(ex);
        } else {
            assert(e[x] != 0);
            assert(ex == 0);
            lemma_fmul_zero(fx);
        }
        lemma_fmul_zero(c);
    }
}

// G has degree < n when at least oc shards were received
pub proof fn lemma_G_degree(orig: Seq<Sv>, rc: int, len: nat, rcv: Set<nat>, n: int, t: nat, k: int)
    requires orig.len() >= 1, rc >= 1, np2(orig.len() as int) + rc <= n <= 65536, rect(orig, len), 0 <= k < len,
        rcnt(rcv, 0, orig.len() as int) + rcnt(rcv, np2(orig.len() as int), np2(orig.len() as int) + rc) >= orig.len(),
    ensures deg_lt(lr_G(orig, rc, len, rcv, n, t, k), n)
{
    let oc = orig.len() as int; let m = np2(oc);
    lemma_oc_bound(oc, rc);
    lemma_np2(oc);
    lemma_cw_shape(orig, len);
    lemma_er0_facts(rcv, oc, rc, n);
    let e = lr_er0(rcv, oc, rc);
    let pts = eseq(e, n);
    let fp = lr_F(orig, len, k); let ein = lr_ein(rcv, oc, rc, n);
    lemma_lchpoly(cw_coeffs(orig, len, k));
    lemma_proots_deg(pts);
    let l = pts.len() as int;
    lemma_deg_pmulp(fp, ein, m, l + 1);
    lemma_deg_mono(pmulp(fp, ein), m + l, n);
    lemma_deg_pscale(ctail(t), pmulp(fp, ein), n);
}

// value and derivative of G at an erased original
pub proof fn lemma_G_at_erased(orig: Seq<Sv>, rc: int, len: nat, rcv: Set<nat>, n: int, t: nat, idx: int, k: int)
    requires orig.len() >= 1, rc >= 1, np2(orig.len() as int) + rc <= n <= 65536, n == p2i(t), t <= 16, rect(orig, len), 0 <= k < len,
        0 <= idx < orig.len(), !rcv.contains(idx as nat)
    ensures ({
        let g = lr_G(orig, rc, len, rcv, n, t, k); let e = lr_er0(rcv, orig.len() as int, rc);
        &&& peval(g, idx as u16) == 0
        &&& peval(pderiv(g), idx as u16) == fmul(orig[idx][k], rp(e, idx, 0, 65536))
    })
{
    let oc = orig.len() as int; let m = np2(oc);
    let xu = idx as u16;
    lemma_oc_bound(oc, rc);
    lemma_np2(oc);
    lemma_er0_facts(rcv, oc, rc, n);
    let e = lr_er0(rcv, oc, rc);
    let fp = lr_F(orig, len, k); let ein = lr_ein(rcv, oc, rc, n); let c = ctail(t);
    let h = pmulp(fp, ein);
    let fx = peval(fp, xu); let ex = peval(ein, xu); let dex = peval(pderiv(ein), xu); let dfx = peval(pderiv(fp), xu);
    lemma_lchpoly_eval(cw_coeffs(orig, len, k), xu);
    lemma_cw_orig(orig, len, k, idx);
    assert(fx == orig[idx][k]);
    assert(e[idx] != 0);
    lemma_locator_value(e, idx, t);
    assert(ex == 0);
    // value
    lemma_peval_pscale(c, h, xu);
    lemma_peval_pmulp(fp, ein, xu);
    lemma_fmul_zero(fx); lemma_fmul_zero(c);
    // derivative
    lemma_peval_pderiv_pscale(c, h, xu);
    lemma_product_rule(fp, ein, xu);
    lemma_fmul_zero(dfx);
    lemma_xor_basic(fmul(fx, dex), 0, 0);
    assert(peval(pderiv(h), xu) == fmul(fx, dex));
    lemma_mul3(fx, dex, c);
}

// ---------------------------------------------------------------- 4. the decoder pipeline
pub proof fn lemma_dec_low_slot(orig: Seq<Sv>, rc: int, len: nat, rcv: Set<nat>, inp: Seq<Sv>, idx: int, k: int)
    requires low_setup(orig, rc, len, rcv, inp),
        rcnt(rcv, 0, orig.len() as int) + rcnt(rcv, np2(orig.len() as int), np2(orig.len() as int) + rc) >= orig.len(),
        0 <= idx < orig.len(), !rcv.contains(idx as nat), 0 <= k < len
    ensures dec_low_ref(inp, rcv, orig.len() as int, rc, len, skew_spec(), idx)[k] == orig[idx][k]
{
    let oc = orig.len() as int; let m = np2(oc); let n = inp.len() as int;
    let skew = skew_spec();
    let xu = idx as u16;
    lemma_oc_bound(oc, rc);
    lemma_np2(oc);
    let t = lemma_pow2_exp16(n);
    let e = lr_er0(rcv, oc, rc);
    let er = dec_er(rcv, oc, m, m + rc, 0, 1);
    assert(er == eval_poly_ref(e));
    lemma_er0_facts(rcv, oc, rc, n);
    let w1 = lr_w1(inp, rcv, oc, rc, len);
    let w2 = ifft_ref(w1, 0, skew);
    let w3 = deriv_ref(w2);
    let w4 = fft_ref(w3, 0, skew);
    assert(w4 == dec_w4(inp, rcv, oc, m, m + rc, 0, 1, len, skew));
    assert(rect(w1, len) && w1.len() == n);
    crate::vspec::slots::lemma_ifft_ref_trunc(w1, 0, skew, len, 0);
    let g = lr_G(orig, rc, len, rcv, n, t, k);
    let g2 = column(w2, k);
    let pts = iota(n);
    assert(pts.no_duplicates());
    lemma_G_degree(orig, rc, len, rcv, n, t, k);
    lemma_mult(0, n);
    assert forall|i: int| 0 <= i < pts.len() implies peval(g, #[trigger] pts[i]) == eval_lch(g2, pts[i]) by {
        lemma_w1_is_G(orig, rc, len, rcv, inp, t, i, k);
        theorem_ifft_interp(w1, 0, len, i, k);
    }
    lemma_lch_interp_any(g2, g, pts, xu);
    lemma_peq_pderiv(g, lchpoly(g2));
    lemma_peval_ext(pderiv(g), pderiv(lchpoly(g2)), xu);
    theorem_deriv_ref(w2, len, xu, k);
    theorem_fft_eval(w3, 0, len, idx, k);
    crate::vspec::slots::lemma_fft_ref_trunc(w3, 0, skew, len, 0);
    lemma_G_at_erased(orig, rc, len, rcv, n, t, idx, k);
    let p = rp(e, idx, 0, 65536);
    lemma_xor_basic(fmul(orig[idx][k], p), 0, 0);
    assert(w4[idx][k] == fmul(orig[idx][k], p));
    lemma_locator_mul(e, idx, orig[idx][k]);
    let l2 = (65535 - er[idx]) as u16;
    assert(dec_low_ref(inp, rcv, oc, rc, len, skew, idx) == v_mul(w4[idx], l2));
    assert(v_mul(w4[idx], l2)[k] == gf_mul_log(w4[idx][k], l2));
}

// THEOREM (C01, low rate, reference level): with at least original_count received shards of a codeword, the reference decoder
// returns every missing original; positions that were not received may hold anything
pub proof fn theorem_dec_low_correct(orig: Seq<Sv>, rc: int, len: nat, rcv: Set<nat>, inp: Seq<Sv>, idx: int, k: int)
    requires
        orig.len() >= 1, rc >= 1, np2(orig.len() as int) + rc <= 65536, rect(orig, len),
        is_pow2(inp.len() as int), np2(orig.len() as int) + rc <= inp.len() <= 65536, rect(inp, len),
        forall|i: int| 0 <= i < orig.len() && rcv.contains(i as nat) ==> inp[i] == #[trigger] orig[i],
        forall|j: int| 0 <= j < rc && rcv.contains((np2(orig.len() as int) + j) as nat)
            ==> inp[np2(orig.len() as int) + j] == #[trigger] enc_low_ref(orig, rc, len, skew_spec())[j],
        rcnt(rcv, 0, orig.len() as int) + rcnt(rcv, np2(orig.len() as int), np2(orig.len() as int) + rc) >= orig.len(),
        0 <= idx < orig.len(), !rcv.contains(idx as nat), 0 <= k < len,
    ensures dec_low_ref(inp, rcv, orig.len() as int, rc, len, skew_spec(), idx)[k] == orig[idx][k]
{
    lemma_dec_low_slot(orig, rc, len, rcv, inp, idx, k);
}

// ---------------------------------------------------------------- the "enough shards" hypothesis as a set cardinality
// received shard positions of the low-rate work layout: originals [0, oc) and recoveries [m, m + rc)
pub open spec fn rset(rcv: Set<nat>, lo: int, hi: int) -> Set<nat> { rcv.filter(|p: nat| lo <= p < hi) }
pub open spec fn received_shards(rcv: Set<nat>, oc: int, rc: int) -> Set<nat> {
    rcv.filter(|p: nat| p < oc || np2(oc) <= p < np2(oc) + rc)
}
pub proof fn lemma_rset(rcv: Set<nat>, lo: int, hi: int)
    requires 0 <= lo
    ensures rset(rcv, lo, hi).len() == rcnt(rcv, lo, hi)
    decreases hi - lo
{
    if hi <= lo {
        assert(rset(rcv, lo, hi) =~= Set::<nat>::empty());
    } else {
        lemma_rset(rcv, lo, hi - 1);
        if rcv.contains((hi - 1) as nat) {
            assert(rset(rcv, lo, hi) =~= rset(rcv, lo, hi - 1).insert((hi - 1) as nat));
        } else {
            assert(rset(rcv, lo, hi) =~= rset(rcv, lo, hi - 1));
        }
    }
}
pub proof fn lemma_received_count(rcv: Set<nat>, oc: int, rc: int)
    requires 1 <= oc <= np2(oc), rc >= 0
    ensures received_shards(rcv, oc, rc).len() == rcnt(rcv, 0, oc) + rcnt(rcv, np2(oc), np2(oc) + rc)
{
    let m = np2(oc);
    let a = rset(rcv, 0, oc); let b = rset(rcv, m, m + rc);
    lemma_rset(rcv, 0, oc); lemma_rset(rcv, m, m + rc);
    assert(a.disjoint(b));
    vstd::set_lib::lemma_set_disjoint_lens(a, b);
    assert(received_shards(rcv, oc, rc) =~= a + b);
}
// the theorem with the count stated as a cardinality
pub proof fn theorem_dec_low_correct_card(orig: Seq<Sv>, rc: int, len: nat, rcv: Set<nat>, inp: Seq<Sv>, idx: int, k: int)
    requires
        orig.len() >= 1, rc >= 1, np2(orig.len() as int) + rc <= 65536, rect(orig, len),
        is_pow2(inp.len() as int), np2(orig.len() as int) + rc <= inp.len() <= 65536, rect(inp, len),
        forall|i: int| 0 <= i < orig.len() && rcv.contains(i as nat) ==> inp[i] == #[trigger] orig[i],
        forall|j: int| 0 <= j < rc && rcv.contains((np2(orig.len() as int) + j) as nat)
            ==> inp[np2(orig.len() as int) + j] == #[trigger] enc_low_ref(orig, rc, len, skew_spec())[j],
        received_shards(rcv, orig.len() as int, rc).len() >= orig.len(),
        0 <= idx < orig.len(), !rcv.contains(idx as nat), 0 <= k < len,
    ensures dec_low_ref(inp, rcv, orig.len() as int, rc, len, skew_spec(), idx)[k] == orig[idx][k]
{
    lemma_oc_bound(orig.len() as int, rc);
    lemma_received_count(rcv, orig.len() as int, rc);
    theorem_dec_low_correct(orig, rc, len, rcv, inp, idx, k);
}
