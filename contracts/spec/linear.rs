use vstd::prelude::*;
use crate::vspec::gf::*;
use crate::vspec::xform::*;
use crate::vspec::codec::*;
use crate::vspec::arith::*;
use crate::vspec::envelope::*;
// C13: the reference codes are additive over XOR (GF(2^16)-linear in the additive sense) and map zero to zero.
// Together with the proved `encode == enc_*_ref(orig_sv)` this is linearity of the real encoders.

// all rows have n symbols
pub open spec fn rect(s: Seq<Sv>, n: nat) -> bool { forall|q: int| 0 <= q < s.len() ==> (#[trigger] s[q]).len() == n }

pub proof fn lemma_xor4(a: u16, b: u16, c: u16, d: u16)
    ensures (a ^ b) ^ (c ^ d) == (a ^ c) ^ (b ^ d)
{
    assert((a ^ b) ^ (c ^ d) == (a ^ c) ^ (b ^ d)) by (bit_vector);
}

pub proof fn lemma_v_xor_add(a1: Sv, b1: Sv, a2: Sv, b2: Sv)
    requires a1.len() == a2.len(), b1.len() == a1.len(), b2.len() == a1.len()
    ensures v_xor(v_xor(a1, a2), v_xor(b1, b2)) =~= v_xor(v_xor(a1, b1), v_xor(a2, b2))
{
    assert forall|k: int| 0 <= k < a1.len() implies (a1[k] ^ a2[k]) ^ (b1[k] ^ b2[k]) == (a1[k] ^ b1[k]) ^ (a2[k] ^ b2[k]) by {
        lemma_xor4(a1[k], a2[k], b1[k], b2[k]);
    }
}

pub proof fn lemma_v_muladd_add(a1: Sv, b1: Sv, a2: Sv, b2: Sv, m: u16)
    requires a1.len() == a2.len(), b1.len() == a1.len(), b2.len() == a1.len()
    ensures v_muladd(v_xor(a1, a2), v_xor(b1, b2), m) =~= v_xor(v_muladd(a1, b1, m), v_muladd(a2, b2, m))
{
    assert forall|k: int| 0 <= k < a1.len() implies
        (a1[k] ^ a2[k]) ^ gf_mul_log((b1[k] ^ b2[k]) as u16, m) == (a1[k] ^ gf_mul_log(b1[k], m)) ^ (a2[k] ^ gf_mul_log(b2[k], m)) by {
        lemma_gf_linear(b1[k], b2[k], m);
        lemma_xor4(a1[k], a2[k], gf_mul_log(b1[k], m), gf_mul_log(b2[k], m));
    }
}

// the four butterfly halves are additive
pub proof fn lemma_bf_add(a1: Sv, b1: Sv, a2: Sv, b2: Sv, m: u16)
    requires a1.len() == a2.len(), b1.len() == a1.len(), b2.len() == a1.len()
    ensures
        fft_a(v_xor(a1, a2), v_xor(b1, b2), m) =~= v_xor(fft_a(a1, b1, m), fft_a(a2, b2, m)),
        fft_b(v_xor(a1, a2), v_xor(b1, b2), m) =~= v_xor(fft_b(a1, b1, m), fft_b(a2, b2, m)),
        ifft_a(v_xor(a1, a2), v_xor(b1, b2), m) =~= v_xor(ifft_a(a1, b1, m), ifft_a(a2, b2, m)),
        ifft_b(v_xor(a1, a2), v_xor(b1, b2), m) =~= v_xor(ifft_b(a1, b1, m), ifft_b(a2, b2, m)),
{
    lemma_v_muladd_add(a1, b1, a2, b2, m);
    let fa1 = fft_a(a1, b1, m); let fa2 = fft_a(a2, b2, m);
    lemma_v_xor_add(b1, fa1, b2, fa2);
    lemma_v_xor_add(b1, a1, b2, a2);
    let ib1 = ifft_b(a1, b1, m); let ib2 = ifft_b(a2, b2, m);
    lemma_v_muladd_add(a1, ib1, a2, ib2, m);
}

// partners of q inside its 2*dist block are in range when 2*dist divides the length
pub proof fn lemma_partner(q: int, len: int, dist: int)
    requires dist >= 1, len % (2 * dist) == 0, 0 <= q < len
    ensures ({
        let r = bstart(q, 2 * dist);
        &&& 0 <= r <= q < r + 2 * dist
        &&& (q - r < dist ==> q + dist < len)
        &&& (q - r >= dist ==> q - dist >= 0)
    })
{
    let r = bstart(q, 2 * dist);
    lemma_bstart_le(q, 2 * dist);
    lemma_mult_step(r, len, 2 * dist);
}

pub proof fn lemma_fft_layer_add(s: Seq<Sv>, t: Seq<Sv>, dist: int, delta: int, skew: Seq<u16>, n: nat)
    requires s.len() == t.len(), rect(s, n), rect(t, n), dist >= 1, (s.len() as int) % (2 * dist) == 0
    ensures
        fft_layer(vv_xor(s, t), dist, delta, skew) =~= vv_xor(fft_layer(s, dist, delta, skew), fft_layer(t, dist, delta, skew)),
        rect(fft_layer(s, dist, delta, skew), n), rect(fft_layer(t, dist, delta, skew), n),
        fft_layer(s, dist, delta, skew).len() == s.len(),
{
    let st = vv_xor(s, t);
    let l = fft_layer(st, dist, delta, skew);
    let r_ = vv_xor(fft_layer(s, dist, delta, skew), fft_layer(t, dist, delta, skew));
    assert forall|q: int| 0 <= q < s.len() implies #[trigger] l[q] == r_[q]
        && fft_layer(s, dist, delta, skew)[q].len() == n && fft_layer(t, dist, delta, skew)[q].len() == n by {
        lemma_partner(q, s.len() as int, dist);
        let r = bstart(q, 2 * dist);
        let m = skew[r + dist + delta - 1];
        if q - r < dist { lemma_bf_add(s[q], s[q + dist], t[q], t[q + dist], m); }
        else { lemma_bf_add(s[q - dist], s[q], t[q - dist], t[q], m); }
    }
}

pub proof fn lemma_ifft_layer_add(s: Seq<Sv>, t: Seq<Sv>, dist: int, delta: int, skew: Seq<u16>, n: nat)
    requires s.len() == t.len(), rect(s, n), rect(t, n), dist >= 1, (s.len() as int) % (2 * dist) == 0
    ensures
        ifft_layer(vv_xor(s, t), dist, delta, skew) =~= vv_xor(ifft_layer(s, dist, delta, skew), ifft_layer(t, dist, delta, skew)),
        rect(ifft_layer(s, dist, delta, skew), n), rect(ifft_layer(t, dist, delta, skew), n),
        ifft_layer(s, dist, delta, skew).len() == s.len(),
{
    let st = vv_xor(s, t);
    let l = ifft_layer(st, dist, delta, skew);
    let r_ = vv_xor(ifft_layer(s, dist, delta, skew), ifft_layer(t, dist, delta, skew));
    assert forall|q: int| 0 <= q < s.len() implies #[trigger] l[q] == r_[q]
        && ifft_layer(s, dist, delta, skew)[q].len() == n && ifft_layer(t, dist, delta, skew)[q].len() == n by {
        lemma_partner(q, s.len() as int, dist);
        let r = bstart(q, 2 * dist);
        let m = skew[r + dist + delta - 1];
        if q - r < dist { lemma_bf_add(s[q], s[q + dist], t[q], t[q + dist], m); }
        else { lemma_bf_add(s[q - dist], s[q], t[q - dist], t[q], m); }
    }
}

pub proof fn lemma_vv_xor_rect(s: Seq<Sv>, t: Seq<Sv>, n: nat)
    requires s.len() == t.len(), rect(s, n), rect(t, n)
    ensures rect(vv_xor(s, t), n), vv_xor(s, t).len() == s.len()
{
}

// FFT (layers dist, dist/2, ..., 1) is additive
pub proof fn lemma_fft_from_add(s: Seq<Sv>, t: Seq<Sv>, dist: int, delta: int, skew: Seq<u16>, n: nat)
    requires s.len() == t.len(), rect(s, n), rect(t, n), dist < 1 || (is_pow2(dist) && (s.len() as int) % (2 * dist) == 0)
    ensures
        fft_from(vv_xor(s, t), dist, delta, skew) == vv_xor(fft_from(s, dist, delta, skew), fft_from(t, dist, delta, skew)),
        rect(fft_from(s, dist, delta, skew), n), rect(fft_from(t, dist, delta, skew), n),
        fft_from(s, dist, delta, skew).len() == s.len(), fft_from(t, dist, delta, skew).len() == s.len(),
    decreases dist
{
    if dist >= 1 {
        lemma_fft_layer_add(s, t, dist, delta, skew, n);
        lemma_fft_layer_add(t, s, dist, delta, skew, n);
        let s1 = fft_layer(s, dist, delta, skew); let t1 = fft_layer(t, dist, delta, skew);
        if dist >= 2 {
            lemma_pow2_half(dist);
            assert(2 * (dist / 2) == dist);
            lemma_half_block(s.len() as int, dist / 2);
        }
        lemma_fft_from_add(s1, t1, dist / 2, delta, skew, n);
    }
}

// IFFT (layers 1, 2, ..., dist/2) is additive
pub proof fn lemma_ifft_upto_add(s: Seq<Sv>, t: Seq<Sv>, dist: int, delta: int, skew: Seq<u16>, n: nat)
    requires s.len() == t.len(), rect(s, n), rect(t, n), dist <= 1 || (is_pow2(dist) && (s.len() as int) % dist == 0)
    ensures
        ifft_upto(vv_xor(s, t), dist, delta, skew) == vv_xor(ifft_upto(s, dist, delta, skew), ifft_upto(t, dist, delta, skew)),
        rect(ifft_upto(s, dist, delta, skew), n), rect(ifft_upto(t, dist, delta, skew), n),
        ifft_upto(s, dist, delta, skew).len() == s.len(), ifft_upto(t, dist, delta, skew).len() == s.len(),
    decreases dist
{
    if dist > 1 {
        lemma_pow2_half(dist);
        assert(2 * (dist / 2) == dist);
        // order matters for stability: 4 * (dist / 4) == dist is the precondition of lemma_half_block (the aarch64 view found the
        // old order - lemma call first - to depend on solver luck)
        if dist / 2 > 1 { lemma_pow2_half(dist / 2); assert(2 * (dist / 4) == dist / 2); assert(4 * (dist / 4) == dist); lemma_half_block(s.len() as int, dist / 4); }
        lemma_ifft_upto_add(s, t, dist / 2, delta, skew, n);
        let s1 = ifft_upto(s, dist / 2, delta, skew); let t1 = ifft_upto(t, dist / 2, delta, skew);
        lemma_ifft_layer_add(s1, t1, dist / 2, delta, skew, n);
        lemma_ifft_layer_add(t1, s1, dist / 2, delta, skew, n);
    }
}

pub proof fn lemma_fft_ref_add(s: Seq<Sv>, t: Seq<Sv>, delta: int, skew: Seq<u16>, n: nat)
    requires s.len() == t.len(), rect(s, n), rect(t, n), is_pow2(s.len() as int)
    ensures
        fft_ref(vv_xor(s, t), delta, skew) == vv_xor(fft_ref(s, delta, skew), fft_ref(t, delta, skew)),
        rect(fft_ref(s, delta, skew), n), rect(fft_ref(t, delta, skew), n), fft_ref(s, delta, skew).len() == s.len(), fft_ref(t, delta, skew).len() == s.len(),
{
    let len = s.len() as int;
    lemma_vv_xor_rect(s, t, n);
    if len >= 2 { lemma_pow2_half(len); assert(2 * (len / 2) == len); lemma_mult(1, len); }
    lemma_fft_from_add(s, t, len / 2, delta, skew, n);
}

pub proof fn lemma_ifft_ref_add(s: Seq<Sv>, t: Seq<Sv>, delta: int, skew: Seq<u16>, n: nat)
    requires s.len() == t.len(), rect(s, n), rect(t, n), is_pow2(s.len() as int)
    ensures
        ifft_ref(vv_xor(s, t), delta, skew) == vv_xor(ifft_ref(s, delta, skew), ifft_ref(t, delta, skew)),
        rect(ifft_ref(s, delta, skew), n), rect(ifft_ref(t, delta, skew), n), ifft_ref(s, delta, skew).len() == s.len(), ifft_ref(t, delta, skew).len() == s.len(),
{
    let len = s.len() as int;
    lemma_vv_xor_rect(s, t, n);
    lemma_mult(1, len);
    lemma_ifft_upto_add(s, t, len, delta, skew, n);
}

pub proof fn lemma_chunk_add(w1: Seq<Sv>, w2: Seq<Sv>, m: int, start: int, n: nat)
    requires w1.len() == w2.len(), rect(w1, n), rect(w2, n), 0 <= start, m >= 0, start + m <= w1.len()
    ensures
        chunk_at(vv_xor(w1, w2), m, start) =~= vv_xor(chunk_at(w1, m, start), chunk_at(w2, m, start)),
        rect(chunk_at(w1, m, start), n), rect(chunk_at(w2, m, start), n), chunk_at(w1, m, start).len() == m, chunk_at(w2, m, start).len() == m,
{
}

pub proof fn lemma_padded_add(o1: Seq<Sv>, o2: Seq<Sv>, total: int, len: nat)
    requires o1.len() == o2.len(), rect(o1, len), rect(o2, len), total >= o1.len()
    ensures
        padded(vv_xor(o1, o2), total, len) =~= vv_xor(padded(o1, total, len), padded(o2, total, len)),
        rect(padded(o1, total, len), len), rect(padded(o2, total, len), len), padded(o1, total, len).len() == total, padded(o2, total, len).len() == total,
{
    assert(0u16 ^ 0u16 == 0u16) by (bit_vector);
    assert(v_xor(v_zero(len), v_zero(len)) =~= v_zero(len));
}

pub proof fn lemma_enc_high_acc_add(w1: Seq<Sv>, w2: Seq<Sv>, m: int, end: int, skew: Seq<u16>, n: nat)
    requires w1.len() == w2.len(), rect(w1, n), rect(w2, n), is_pow2(m), m <= end <= w1.len(), end % m == 0
    ensures
        enc_high_acc(vv_xor(w1, w2), m, end, skew) == vv_xor(enc_high_acc(w1, m, end, skew), enc_high_acc(w2, m, end, skew)),
        rect(enc_high_acc(w1, m, end, skew), n), rect(enc_high_acc(w2, m, end, skew), n),
        enc_high_acc(w1, m, end, skew).len() == m, enc_high_acc(w2, m, end, skew).len() == m,
    decreases end
{
    lemma_pow2_basic(m);
    if end <= m {
        lemma_chunk_add(w1, w2, m, 0, n);
        lemma_ifft_ref_add(chunk_at(w1, m, 0), chunk_at(w2, m, 0), m, skew, n);
    } else {
        lemma_mult(1, m); lemma_mult_step(m, end, m);
        lemma_mod_sub(end, m);
        lemma_enc_high_acc_add(w1, w2, m, end - m, skew, n);
        lemma_chunk_add(w1, w2, m, end - m, n);
        let c1 = chunk_at(w1, m, end - m); let c2 = chunk_at(w2, m, end - m);
        lemma_ifft_ref_add(c1, c2, end, skew, n);
        let a1 = enc_high_acc(w1, m, end - m, skew); let a2 = enc_high_acc(w2, m, end - m, skew);
        let f1 = ifft_ref(c1, end, skew); let f2 = ifft_ref(c2, end, skew);
        assert(vv_xor(vv_xor(a1, a2), vv_xor(f1, f2)) =~= vv_xor(vv_xor(a1, f1), vv_xor(a2, f2))) by {
            assert forall|q: int| 0 <= q < m implies #[trigger] vv_xor(vv_xor(a1, a2), vv_xor(f1, f2))[q] == vv_xor(vv_xor(a1, f1), vv_xor(a2, f2))[q] by {
                lemma_v_xor_add(a1[q], f1[q], a2[q], f2[q]);
            }
        }
        lemma_vv_xor_rect(a1, f1, n); lemma_vv_xor_rect(a2, f2, n);
    }
}

pub proof fn lemma_mod_sub(end: int, m: int)
    requires m >= 1, end % m == 0, end >= m
    ensures (end - m) % m == 0
{
    let k = lemma_is_mult(end, m);
    assert(end - m == (k - 1) * m) by (nonlinear_arith) requires end == k * m;
    lemma_mult(k - 1, m);
}

// C13 (additivity) of the high-rate reference code
pub proof fn lemma_enc_high_ref_add(o1: Seq<Sv>, o2: Seq<Sv>, rc: int, len: nat, skew: Seq<u16>)
    requires o1.len() == o2.len(), rect(o1, len), rect(o2, len), is_pow2(np2(rc)),
        ({ let m = np2(rc); let wc = ((o1.len() + m - 1) / m) * m; wc % m == 0 && wc >= m && wc >= o1.len() })
    ensures enc_high_ref(vv_xor(o1, o2), rc, len, skew) == vv_xor(enc_high_ref(o1, rc, len, skew), enc_high_ref(o2, rc, len, skew))
{
    let m = np2(rc); let wc = ((o1.len() + m - 1) / m) * m;
    lemma_padded_add(o1, o2, wc, len);
    let w1 = padded(o1, wc, len); let w2 = padded(o2, wc, len);
    lemma_enc_high_acc_add(w1, w2, m, wc, skew, len);
    lemma_fft_ref_add(enc_high_acc(w1, m, wc, skew), enc_high_acc(w2, m, wc, skew), 0, skew, len);
}

// C13 (additivity) of the low-rate reference code
pub proof fn lemma_enc_low_ref_add(o1: Seq<Sv>, o2: Seq<Sv>, rc: int, len: nat, skew: Seq<u16>)
    requires o1.len() == o2.len(), rect(o1, len), rect(o2, len), is_pow2(np2(o1.len() as int)), np2(o1.len() as int) >= o1.len(), rc >= 0
    ensures enc_low_ref(vv_xor(o1, o2), rc, len, skew) =~= vv_xor(enc_low_ref(o1, rc, len, skew), enc_low_ref(o2, rc, len, skew))
{
    let m = np2(o1.len() as int);
    lemma_pow2_basic(m);
    lemma_padded_add(o1, o2, m, len);
    let p1 = padded(o1, m, len); let p2 = padded(o2, m, len);
    lemma_ifft_ref_add(p1, p2, 0, skew, len);
    let c1 = enc_low_c0(o1, len, skew); let c2 = enc_low_c0(o2, len, skew);
    assert(enc_low_c0(vv_xor(o1, o2), len, skew) == vv_xor(c1, c2));
    assert forall|j: int| 0 <= j < rc implies #[trigger] enc_low_ref(vv_xor(o1, o2), rc, len, skew)[j]
        == vv_xor(enc_low_ref(o1, rc, len, skew), enc_low_ref(o2, rc, len, skew))[j] by {
        lemma_bstart_le(j, m);
        lemma_fft_ref_add(c1, c2, bstart(j, m) + m, skew, len);
    }
}
