use vstd::prelude::*;
// Symbol view of work memory (algorithm.md): in each 64-byte block, byte l is the low half and byte l+32 the
// high half of the l-th 16-bit symbol.

pub open spec fn sym(b: [u8; 64], l: int) -> u16 { (b@[l] as u16) | ((b@[l + 32] as u16) << 8) }

// the 32*len symbol slots of one shard
pub open spec fn sv(s: Seq<[u8; 64]>) -> Seq<u16> { Seq::new((32 * s.len()) as nat, |k: int| sym(s[k / 32], k % 32)) }

pub proof fn lemma_sym_xor(a0: u8, a1: u8, b0: u8, b1: u8)
    ensures (((a0 ^ b0) as u16) | (((a1 ^ b1) as u16) << 8)) == ((a0 as u16) | ((a1 as u16) << 8)) ^ ((b0 as u16) | ((b1 as u16) << 8))
{
    assert((((a0 ^ b0) as u16) | (((a1 ^ b1) as u16) << 8)) == ((a0 as u16) | ((a1 as u16) << 8)) ^ ((b0 as u16) | ((b1 as u16) << 8))) by (bit_vector);
}
pub proof fn lemma_nibbles(lo: u8, hi: u8)
    ensures
        ((lo as u16) | ((hi as u16) << 8)) ==
            (((lo & 15) as u16) << 0u16) ^ (((lo >> 4) as u16) << 4u16) ^ (((hi & 15) as u16) << 8u16) ^ (((hi >> 4) as u16) << 12u16),
        (lo & 15) < 16, (lo >> 4) < 16, (hi & 15) < 16, (hi >> 4) < 16,
{
    assert(((lo as u16) | ((hi as u16) << 8)) ==
            (((lo & 15) as u16) << 0u16) ^ (((lo >> 4) as u16) << 4u16) ^ (((hi & 15) as u16) << 8u16) ^ (((hi >> 4) as u16) << 12u16)) by (bit_vector);
    assert((lo & 15) < 16 && (lo >> 4) < 16) by (bit_vector);
    assert((hi & 15) < 16 && (hi >> 4) < 16) by (bit_vector);
}
pub proof fn lemma_recompose(p: u16)
    ensures (((p as u8) as u16) | ((((p >> 8) as u8) as u16) << 8)) == p
{
    assert((((p as u8) as u16) | ((((p >> 8) as u8) as u16) << 8)) == p) by (bit_vector);
}
pub proof fn lemma_split_xor(x0: u8, x1: u8, p: u16)
    ensures (((x0 ^ (p as u8)) as u16) | (((x1 ^ ((p >> 8) as u8)) as u16) << 8)) == ((x0 as u16) | ((x1 as u16) << 8)) ^ p
{
    assert((((x0 ^ (p as u8)) as u16) | (((x1 ^ ((p >> 8) as u8)) as u16) << 8)) == ((x0 as u16) | ((x1 as u16) << 8)) ^ p) by (bit_vector);
}

// the sb/2 symbols of a shard as the *user* sees its bytes (after undo_last_chunk_encoding / before insert's
// re-arrangement): full blocks as above; in the final partial block of t = sb % 64 bytes, byte l is the low and
// byte l + t/2 the high half of symbol l
pub open spec fn usv(s: Seq<[u8; 64]>, sb: int) -> Seq<u16> {
    Seq::new((sb / 2) as nat, |k: int| {
        let b = k / 32; let l = k % 32; let t = sb % 64;
        if b < sb / 64 { sym(s[b], l) } else { (s[b]@[l] as u16) | ((s[b]@[l + t / 2] as u16) << 8) }
    })
}
pub proof fn lemma_usv_whole(s: Seq<[u8; 64]>, sb: int)
    requires sb >= 0, sb % 64 == 0, s.len() >= sb / 64
    ensures usv(s, sb) =~= sv(s).subrange(0, sb / 2)
{
}

// the sb/2 symbols of a shard given as the user's bytes (same placement rule as usv, on a flat byte string)
pub open spec fn bsv(bytes: Seq<u8>) -> Seq<u16> {
    let sb = bytes.len() as int;
    Seq::new((sb / 2) as nat, |k: int| {
        let b = k / 32; let l = k % 32; let t = sb % 64;
        if b < sb / 64 { (bytes[64 * b + l] as u16) | ((bytes[64 * b + 32 + l] as u16) << 8) }
        else { (bytes[64 * b + l] as u16) | ((bytes[64 * b + t / 2 + l] as u16) << 8) }
    })
}
