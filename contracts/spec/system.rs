use vstd::prelude::*;
use crate::vspec::arith::*;
use crate::vspec::xform::*;
use crate::vspec::codec::*;
use crate::vspec::layout::bsv;
use crate::vspec::envelope::{np2, lemma_np2, lemma_np2_pow2};
use crate::vspec::linear::rect;
use crate::vspec::tables::skew_spec;
use crate::vspec::locator::rcnt;
use crate::vspec::slots::*;
use crate::vspec::declow::lemma_oc_bound;
use crate::vspec::dechigh::lemma_high_sizes;
use crate::vspec::roundtrip::{theorem_dec_low_slots, theorem_dec_high_slots, lemma_dec_core_len};
// End-to-end composition over USER BYTES. The hypotheses of the two theorems below are the postconditions of the API
// calls of one encode round and one decode round (rate.vspec: RateEncoder / RateDecoder; results.vspec: what
// `recovery(j)` / `restored_original(idx)` hand out), the conclusion is `restored == ob[idx]` on byte strings.
//
// Notation: sb = shard_bytes (even, > 0); len = 32 * ((sb + 63) / 64) symbol slots per stored shard (the literal
// `(32 * ((sb() + 63) / 64)) as nat` of the encode / decode postconditions); w = sb / 2 used slots.

// ---------------------------------------------------------------- the placement is a bijection
pub proof fn lemma_pack_inj(x0: u8, x1: u8, y0: u8, y1: u8)
    requires ((x0 as u16) | ((x1 as u16) << 8)) == ((y0 as u16) | ((y1 as u16) << 8))
    ensures x0 == y0, x1 == y1
{
    assert(((x0 as u16) | ((x1 as u16) << 8)) == ((y0 as u16) | ((y1 as u16) << 8)) ==> x0 == y0 && x1 == y1) by (bit_vector);
}

// byte strings of the same even length with the same symbols are equal: every byte is the low or the high half of
// exactly one symbol (bsv is a bijection between byte strings of even length sb and symbol vectors of length sb / 2)
pub proof fn lemma_bsv_injective(a: Seq<u8>, b: Seq<u8>)
    requires a.len() == b.len(), a.len() % 2 == 0, bsv(a) == bsv(b)
    ensures a == b
{
    let sb = a.len() as int; let t = sb % 64; let nb = sb / 64;
    assert forall|p: int| 0 <= p < sb implies a[p] == b[p] by {
        let blk = p / 64; let j = p % 64;
        // distance between the low and the high half: 32 in whole blocks, t / 2 in the final partial block
        let h = if blk < nb { 32int } else { t / 2 };
        let l = if j < h { j } else { j - h };
        let k = 32 * blk + l;
        assert(0 <= l < h && h <= 32);
        assert(k / 32 == blk && k % 32 == l);
        assert(0 <= k < sb / 2);
        assert(bsv(a)[k] == bsv(b)[k]);
        if blk < nb {
            assert(bsv(a)[k] == (a[64 * blk + l] as u16) | ((a[64 * blk + 32 + l] as u16) << 8));
            assert(bsv(b)[k] == (b[64 * blk + l] as u16) | ((b[64 * blk + 32 + l] as u16) << 8));
        } else {
            assert(bsv(a)[k] == (a[64 * blk + l] as u16) | ((a[64 * blk + t / 2 + l] as u16) << 8));
            assert(bsv(b)[k] == (b[64 * blk + l] as u16) | ((b[64 * blk + t / 2 + l] as u16) << 8));
        }
        lemma_pack_inj(a[64 * blk + l], a[64 * blk + h + l], b[64 * blk + l], b[64 * blk + h + l]);
    }
    assert(a =~= b);
}

// ---------------------------------------------------------------- shape of the reference codes
// every recovery vector of the reference encoders has len slots (needed to index into its used-slot prefix)
pub proof fn lemma_enc_low_rect(orig: Seq<Sv>, rc: int, len: nat)
    requires orig.len() >= 1, rc >= 1, np2(orig.len() as int) + rc <= 65536, rect(orig, len)
    ensures enc_low_ref(orig, rc, len, skew_spec()).len() == rc, rect(enc_low_ref(orig, rc, len, skew_spec()), len)
{
    let oc = orig.len() as int; let m = np2(oc); let skew = skew_spec();
    lemma_oc_bound(oc, rc); lemma_np2(oc); lemma_np2_pow2(oc);
    let enc = enc_low_ref(orig, rc, len, skew);
    assert forall|j: int| 0 <= j < enc.len() implies (#[trigger] enc[j]).len() == len by {
        lemma_bstart_le(j, m);
        lemma_pow2_basic(m);
        lemma_padded_trunc(orig, m, len, 0);
        lemma_ifft_ref_trunc(padded(orig, m, len), 0, skew, len, 0);
        lemma_fft_ref_trunc(enc_low_c0(orig, len, skew), bstart(j, m) + m, skew, len, 0);
        let f = fft_ref(enc_low_c0(orig, len, skew), bstart(j, m) + m, skew);
        assert(enc[j] == f[j - bstart(j, m)]);
    }
}
pub proof fn lemma_enc_high_rect(orig: Seq<Sv>, rc: int, len: nat)
    requires orig.len() >= 1, rc >= 1, np2(rc) + orig.len() <= 65536, rect(orig, len)
    ensures enc_high_ref(orig, rc, len, skew_spec()).len() == np2(rc), rc <= np2(rc), rect(enc_high_ref(orig, rc, len, skew_spec()), len)
{
    let oc = orig.len() as int; let m = np2(rc); let skew = skew_spec();
    let tm = lemma_high_sizes(oc, rc);
    lemma_pow2_basic(m); lemma_np2(rc);
    let q = (oc + m - 1) / m; let wc = q * m;
    vstd::arithmetic::div_mod::lemma_fundamental_div_mod(oc + m - 1, m);
    vstd::arithmetic::div_mod::lemma_mod_bound(oc + m - 1, m);
    lemma_mult(q, m);
    assert(oc <= wc <= oc + m - 1);
    assert(wc >= m) by {
        if q <= 0 { assert(q * m <= 0) by (nonlinear_arith) requires q <= 0, m >= 1; }
        else { assert(q * m >= m) by (nonlinear_arith) requires q >= 1, m >= 1; }
    }
    lemma_padded_trunc(orig, wc, len, 0);
    let p = padded(orig, wc, len);
    lemma_enc_high_acc_trunc(p, m, wc, skew, len, 0);
    lemma_fft_ref_trunc(enc_high_acc(p, m, wc, skew), 0, skew, len, 0);
}

// two vectors with equal w-slot prefixes agree on the slots below w
pub proof fn lemma_prefix_slots(a: Sv, b: Sv, w: int)
    requires 0 <= w <= a.len(), w <= b.len(), a.subrange(0, w) == b.subrange(0, w)
    ensures forall|k: int| 0 <= k < w ==> a[k] == b[k]
{
    assert forall|k: int| 0 <= k < w implies a[k] == b[k] by {
        assert(a.subrange(0, w)[k] == a[k] && b.subrange(0, w)[k] == b[k]);
    }
}

// ---------------------------------------------------------------- low rate
// Work positions of the low-rate decoder (LowRateDecoder::inv): original i at i, recovery j at np2(oc) + j.
pub proof fn theorem_bytes_roundtrip_low(
    sb: int, len: nat, oc: int, rc: int,
    ob: Seq<Seq<u8>>, orig_sv: Seq<Sv>, rb: Seq<Seq<u8>>,
    rcv: Set<nat>, inp: Seq<Sv>, idx: int, restored: Seq<u8>,
)
    requires
        // configuration accepted by `LowRateEncoder::new` / `LowRateDecoder::new` (validate_spec, low_env)
        sb > 0, sb % 2 == 0, len == 32 * ((sb + 63) / 64),
        oc >= 1, rc >= 1, np2(oc) + rc <= 65536,
        // the user's original shards
        ob.len() == oc, forall|i: int| 0 <= i < oc ==> (#[trigger] ob[i]).len() == sb,
        // ENCODER, after oc calls `add_original_shard(ob[i])` (orig_sv = enc.orig_sv()): each call ensures
        //   final.orig_sv()[added].subrange(0, sb / 2) =~= bsv(original_shard@)  and leaves the other originals unchanged;
        // shape: orig_sv() is one vector of len slots per original (LowRateEncoder::orig_sv_i, shards.fits(sb))
        orig_sv.len() == oc, rect(orig_sv, len),
        forall|i: int| 0 <= i < oc ==> (#[trigger] orig_sv[i]).subrange(0, sb / 2) == bsv(ob[i]),
        // ENCODER `encode` + `EncoderResult::recovery(j)`: rb[j] = flat(work.shards.shard(j)).subrange(0, sb), so by
        // lemma_flat_bsv  bsv(rb[j]) == usv(shard(j), sb) == enc_spec(orig_sv(), rc, len)[j].subrange(0, sb / 2)
        rb.len() == rc, forall|j: int| 0 <= j < rc ==> (#[trigger] rb[j]).len() == sb,
        forall|j: int| 0 <= j < rc ==> bsv(#[trigger] rb[j]) == enc_low_ref(orig_sv, rc, len, skew_spec())[j].subrange(0, sb / 2),
        // DECODER work view (inp = dec.work_sv(), rcv = dec.recv()): np2(np2(oc) + rc) vectors of len slots
        is_pow2(inp.len() as int), np2(oc) + rc <= inp.len() <= 65536, rect(inp, len),
        // DECODER `add_original_shard(i, ob[i])`: recv gains opos(i) = i and
        //   final.work_sv()[opos(i)].subrange(0, sb / 2) =~= bsv(original_shard@);  other positions unchanged
        forall|i: int| 0 <= i < oc && rcv.contains(i as nat) ==> (#[trigger] inp[i]).subrange(0, sb / 2) == bsv(ob[i]),
        // DECODER `add_recovery_shard(j, rb[j])`: recv gains rpos(j) = np2(oc) + j and
        //   final.work_sv()[rpos(j)].subrange(0, sb / 2) =~= bsv(recovery_shard@);  other positions unchanged
        forall|j: int| 0 <= j < rc && rcv.contains((np2(oc) + j) as nat) ==> (#[trigger] inp[np2(oc) + j]).subrange(0, sb / 2) == bsv(rb[j]),
        // DECODER `decode` returned Ok: origs().len() + recs().len() >= oc (origs / recs = the received original / recovery positions)
        rcnt(rcv, 0, oc) + rcnt(rcv, np2(oc), np2(oc) + rc) >= oc,
        // original idx was not given to the decoder
        0 <= idx < oc, !rcv.contains(idx as nat),
        // DECODER `decode` + `DecoderResult::restored_original(idx)`: restored = flat(shard(original_base_pos + idx)).subrange(0, sb),
        // so by lemma_flat_bsv  bsv(restored) == usv(..) == dec_spec(work_sv(), recv(), oc, rc, len, idx).subrange(0, sb / 2)
        restored.len() == sb,
        bsv(restored) == dec_low_ref(inp, rcv, oc, rc, len, skew_spec(), idx).subrange(0, sb / 2),
    ensures restored == ob[idx]
{
    let w = sb / 2; let m = np2(oc); let skew = skew_spec();
    assert(0 <= w <= len);
    lemma_oc_bound(oc, rc); lemma_np2(oc);
    let enc = enc_low_ref(orig_sv, rc, len, skew);
    lemma_enc_low_rect(orig_sv, rc, len);
    assert forall|i: int, k1: int| 0 <= i < orig_sv.len() && rcv.contains(i as nat) && 0 <= k1 < w implies inp[i][k1] == orig_sv[i][k1] by {
        assert(inp[i].len() == len && orig_sv[i].len() == len);
        lemma_prefix_slots(inp[i], orig_sv[i], w);
    }
    assert forall|j: int, k1: int| 0 <= j < rc && rcv.contains((np2(orig_sv.len() as int) + j) as nat) && 0 <= k1 < w
        implies inp[np2(orig_sv.len() as int) + j][k1] == enc_low_ref(orig_sv, rc, len, skew_spec())[j][k1] by {
        assert(inp[m + j].len() == len && enc[j].len() == len);
        assert(inp[m + j].subrange(0, w) == bsv(rb[j]));
        lemma_prefix_slots(inp[m + j], enc[j], w);
    }
    let dec = dec_low_ref(inp, rcv, oc, rc, len, skew, idx);
    lemma_dec_core_len(inp, rcv, oc, m, m + rc, 0, 1, len, skew, idx);
    assert forall|k: int| 0 <= k < w implies dec.subrange(0, w)[k] == orig_sv[idx].subrange(0, w)[k] by {
        theorem_dec_low_slots(orig_sv, rc, len, w, rcv, inp, idx, k);
        assert(orig_sv[idx].len() == len);
    }
    assert(orig_sv[idx].len() == len);
    assert(dec.subrange(0, w) =~= orig_sv[idx].subrange(0, w));
    assert(ob[idx].len() == sb);
    lemma_bsv_injective(restored, ob[idx]);
}

// ---------------------------------------------------------------- high rate
// Work positions of the high-rate decoder (HighRateDecoder::inv): recovery j at j, original i at np2(rc) + i.
pub proof fn theorem_bytes_roundtrip_high(
    sb: int, len: nat, oc: int, rc: int,
    ob: Seq<Seq<u8>>, orig_sv: Seq<Sv>, rb: Seq<Seq<u8>>,
    rcv: Set<nat>, inp: Seq<Sv>, idx: int, restored: Seq<u8>,
)
    requires
        // configuration accepted by `HighRateEncoder::new` / `HighRateDecoder::new` (validate_spec, high_env)
        sb > 0, sb % 2 == 0, len == 32 * ((sb + 63) / 64),
        oc >= 1, rc >= 1, np2(rc) + oc <= 65536,
        // the user's original shards
        ob.len() == oc, forall|i: int| 0 <= i < oc ==> (#[trigger] ob[i]).len() == sb,
        // ENCODER `add_original_shard` x oc (see the low-rate theorem)
        orig_sv.len() == oc, rect(orig_sv, len),
        forall|i: int| 0 <= i < oc ==> (#[trigger] orig_sv[i]).subrange(0, sb / 2) == bsv(ob[i]),
        // ENCODER `encode` + `recovery(j)` + lemma_flat_bsv
        rb.len() == rc, forall|j: int| 0 <= j < rc ==> (#[trigger] rb[j]).len() == sb,
        forall|j: int| 0 <= j < rc ==> bsv(#[trigger] rb[j]) == enc_high_ref(orig_sv, rc, len, skew_spec())[j].subrange(0, sb / 2),
        // DECODER work view (inp = dec.work_sv(), rcv = dec.recv()): np2(np2(rc) + oc) vectors of len slots
        is_pow2(inp.len() as int), np2(rc) + oc <= inp.len() <= 65536, rect(inp, len),
        // DECODER `add_recovery_shard(j, rb[j])`: rpos(j) = j
        forall|j: int| 0 <= j < rc && rcv.contains(j as nat) ==> (#[trigger] inp[j]).subrange(0, sb / 2) == bsv(rb[j]),
        // DECODER `add_original_shard(i, ob[i])`: opos(i) = np2(rc) + i
        forall|i: int| 0 <= i < oc && rcv.contains((np2(rc) + i) as nat) ==> (#[trigger] inp[np2(rc) + i]).subrange(0, sb / 2) == bsv(ob[i]),
        // DECODER `decode` returned Ok
        rcnt(rcv, 0, rc) + rcnt(rcv, np2(rc), np2(rc) + oc) >= oc,
        // original idx was not given to the decoder
        0 <= idx < oc, !rcv.contains((np2(rc) + idx) as nat),
        // DECODER `decode` + `restored_original(idx)` + lemma_flat_bsv
        restored.len() == sb,
        bsv(restored) == dec_high_ref(inp, rcv, oc, rc, len, skew_spec(), idx).subrange(0, sb / 2),
    ensures restored == ob[idx]
{
    let w = sb / 2; let m = np2(rc); let skew = skew_spec();
    assert(0 <= w <= len);
    let tm = lemma_high_sizes(oc, rc);
    let enc = enc_high_ref(orig_sv, rc, len, skew);
    lemma_enc_high_rect(orig_sv, rc, len);
    assert forall|j: int, k1: int| 0 <= j < rc && rcv.contains(j as nat) && 0 <= k1 < w
        implies inp[j][k1] == enc_high_ref(orig_sv, rc, len, skew_spec())[j][k1] by {
        assert(inp[j].len() == len && enc[j].len() == len);
        assert(inp[j].subrange(0, w) == bsv(rb[j]));
        lemma_prefix_slots(inp[j], enc[j], w);
    }
    assert forall|i: int, k1: int| 0 <= i < orig_sv.len() && rcv.contains((np2(rc) + i) as nat) && 0 <= k1 < w
        implies inp[np2(rc) + i][k1] == orig_sv[i][k1] by {
        assert(inp[m + i].len() == len && orig_sv[i].len() == len);
        lemma_prefix_slots(inp[m + i], orig_sv[i], w);
    }
    let dec = dec_high_ref(inp, rcv, oc, rc, len, skew, idx);
    lemma_dec_core_len(inp, rcv, rc, m, m + oc, 1, 0, len, skew, m + idx);
    assert forall|k: int| 0 <= k < w implies dec.subrange(0, w)[k] == orig_sv[idx].subrange(0, w)[k] by {
        theorem_dec_high_slots(orig_sv, rc, len, w, rcv, inp, idx, k);
        assert(orig_sv[idx].len() == len);
    }
    assert(orig_sv[idx].len() == len);
    assert(dec.subrange(0, w) =~= orig_sv[idx].subrange(0, w));
    assert(ob[idx].len() == sb);
    lemma_bsv_injective(restored, ob[idx]);
}

// ---------------------------------------------------------------- "at least oc shards were given"
// DecoderWork::orig_set / rec_set (what `RateDecoder::origs()` / `recs()` are for the codecs) as a function of the received
// positions: the indexes i < n whose work position base + i was received; its size is the count used by the theorems
pub open spec fn idx_set(rcv: Set<nat>, base: int, n: int) -> Set<int> {
    vstd::set_lib::set_int_range(0, n).filter(|i: int| rcv.contains((base + i) as nat))
}
pub proof fn lemma_idx_set(rcv: Set<nat>, base: int, n: int)
    requires base >= 0, n >= 0
    ensures idx_set(rcv, base, n).len() == rcnt(rcv, base, base + n)
    decreases n
{
    if n == 0 {
        assert(idx_set(rcv, base, n) =~= Set::<int>::empty());
    } else {
        lemma_idx_set(rcv, base, n - 1);
        if rcv.contains((base + n - 1) as nat) {
            assert(idx_set(rcv, base, n) =~= idx_set(rcv, base, n - 1).insert(n - 1));
        } else {
            assert(idx_set(rcv, base, n) =~= idx_set(rcv, base, n - 1));
        }
    }
}
