use vstd::prelude::*;
use crate::vspec::gf::*;
use crate::vspec::gfth::*;
use crate::vspec::scale::*;
use crate::vspec::tables::*;
use crate::vspec::field::*;
use crate::vspec::arith::*;
use crate::vspec::xform::*;
use crate::vspec::codec::*;
use crate::vspec::linear::*;
use crate::vspec::inverse::*;
// The Lin-Chung-Han basis: normalised subspace (vanishing) polynomials shat(m, .) as functions on symbols,
// Theorem A (the SKEW table holds the logarithms of their values) and
// Theorem B (fft_ref turns LCH-basis coefficients into the values of the polynomial at the points delta + i).

pub open spec fn p2(k: nat) -> u16 { (1u16 << (k as u16)) as u16 }

// shat(0, x) = x;  shat(m+1, x) = shat(m, x) * (shat(m, x) ^ 1) / (shat(m, 2^(m+1)) * (shat(m, 2^(m+1)) ^ 1))
pub open spec fn shat(m: nat, x: u16) -> u16
    decreases m
{
    if m == 0 { x } else {
        let k = (m - 1) as nat;
        fmul(fmul(shat(k, x), shat(k, x) ^ one()), finv(fmul(shat(k, p2(m)), shat(k, p2(m)) ^ one())))
    }
}
// x * (x + 1)
pub open spec fn fas(s: u16) -> u16 { fmul(s, s ^ one()) }
// the normaliser used at level m + 1
pub open spec fn nrm(m: nat) -> u16 { fas(shat(m, p2(m + 1))) }

pub proof fn lemma_shat_unfold(m: nat, x: u16)
    ensures shat(m + 1, x) == fmul(fas(shat(m, x)), finv(nrm(m)))
{
}

pub proof fn lemma_shat_add(m: nat, a: u16, b: u16)
    ensures shat(m, a ^ b) == shat(m, a) ^ shat(m, b)
    decreases m
{
    if m > 0 {
        let k = (m - 1) as nat;
        lemma_shat_add(k, a, b);
        lemma_shat_unfold(k, a); lemma_shat_unfold(k, b); lemma_shat_unfold(k, a ^ b);
        lemma_artin_schreier(shat(k, a), shat(k, b));
        lemma_fmul_xor_l(fas(shat(k, a)), fas(shat(k, b)), finv(nrm(k)));
    }
}

pub proof fn lemma_fas_zero(s: u16)
    ensures fas(s) == 0 <==> (s == 0 || s == one())
{
    lemma_xor_basic(s, one(), 0);
    if fas(s) == 0 { lemma_no_zero_div(s, s ^ one()); }
    if s == 0 { lemma_fmul_zero(s ^ one()); }
    if s == one() { lemma_fmul_zero(s); }
}

// t = shat(k, y) is neither 0 nor 1 when y and y ^ 2^k are outside the kernel and shat(k, 2^k) == 1
pub proof fn lemma_not01(k: nat, y: u16)
    requires shat(k, y) != 0, shat(k, y ^ p2(k)) != 0, shat(k, p2(k)) == one()
    ensures shat(k, y) != 0, shat(k, y) != one(), fas(shat(k, y)) != 0
{
    lemma_shat_add(k, y, p2(k));
    lemma_xor_basic(shat(k, y), one(), 0);
    lemma_fas_zero(shat(k, y));
}

// kernel of shat(m, .) is [0, 2^m); shat(m, 2^m) == 1
pub proof fn lemma_shat_facts(m: nat, x: u16)
    requires m <= 15
    ensures
        shat(m, x) == 0 <==> x < p2(m),
        shat(m, p2(m)) == one(),
    decreases m
{
    lemma_one();
    if m == 0 {
        assert((1u16 << 0u16) == 1u16) by (bit_vector);
        assert(x == 0 <==> x < 1u16);
    } else {
        let k = (m - 1) as nat;
        let kk = k as u16;
        lemma_shat_facts(k, x);
        lemma_shat_facts(k, p2(m));
        lemma_shat_facts(k, x ^ p2(k));
        lemma_shat_facts(k, p2(m) ^ p2(k));
        assert(!((1u16 << ((kk + 1) as u16)) < (1u16 << kk)) && !(((1u16 << ((kk + 1) as u16)) ^ (1u16 << kk)) < (1u16 << kk))) by (bit_vector)
            requires kk < 15;
        lemma_not01(k, p2(m));
        assert(nrm(k) != 0);
        lemma_finv(nrm(k));
        lemma_shat_unfold(k, x); lemma_shat_unfold(k, p2(m));
        // unit
        assert(shat(m, p2(m)) == one());
        // kernel
        let s = shat(k, x);
        lemma_fas_zero(s);
        if shat(m, x) == 0 { lemma_no_zero_div(fas(s), finv(nrm(k))); }
        if fas(s) == 0 { lemma_fmul_zero(finv(nrm(k))); }
        lemma_shat_add(k, x, p2(k));
        lemma_xor_basic(s, one(), 0);
        assert(s == one() <==> shat(k, x ^ p2(k)) == 0);
        assert((x < (1u16 << kk) || (x ^ (1u16 << kk)) < (1u16 << kk)) <==> x < (1u16 << ((kk + 1) as u16))) by (bit_vector)
            requires kk < 15;
    }
}
pub proof fn lemma_shat_kernel(m: nat, x: u16)
    requires m <= 15
    ensures shat(m, x) == 0 <==> x < p2(m)
{
    lemma_shat_facts(m, x);
}
pub proof fn lemma_shat_unit(m: nat)
    requires m <= 15
    ensures shat(m, p2(m)) == one()
{
    lemma_shat_facts(m, 0);
}

// shat(m, 2^b) is neither 0 nor 1 for m < b <= 15 (so the normalisers are non-zero)
pub proof fn lemma_shat_regular(m: nat, b: nat)
    requires m < b <= 15
    ensures shat(m, p2(b)) != 0, shat(m, p2(b)) != one(), fas(shat(m, p2(b))) != 0
{
    let mm = m as u16; let bb = b as u16;
    assert(!((1u16 << bb) < (1u16 << mm)) && !(((1u16 << bb) ^ (1u16 << mm)) < (1u16 << mm))) by (bit_vector)
        requires mm < bb, bb <= 15;
    lemma_shat_kernel(m, p2(b));
    lemma_shat_kernel(m, p2(b) ^ p2(m));
    lemma_shat_unit(m);
    lemma_not01(m, p2(b));
}
pub proof fn lemma_nrm_nz(m: nat)
    requires m < 15
    ensures nrm(m) != 0
{
    lemma_shat_regular(m, m + 1);
}
// shat(m, .) is constant on the cosets x ^ [0, 2^m), and adding 2^m adds one
pub proof fn lemma_shat_coset(m: nat, x: u16, y: u16)
    requires m <= 15, y < p2(m)
    ensures shat(m, x ^ y) == shat(m, x), shat(m, (x ^ p2(m)) ^ y) == shat(m, x) ^ one(), shat(m, x ^ p2(m)) == shat(m, x) ^ one()
{
    lemma_shat_kernel(m, y);
    lemma_shat_unit(m);
    lemma_shat_add(m, x, y);
    lemma_shat_add(m, x ^ p2(m), y);
    lemma_shat_add(m, x, p2(m));
    lemma_xor_basic(shat(m, x), 0, 0);
    lemma_xor_basic(shat(m, x) ^ one(), 0, 0);
}

// ---------------------------------------------------------------- Theorem A: SKEW = logarithms of shat
// 2^t as an integer
pub open spec fn p2i(t: nat) -> int
    decreases t
{
    if t == 0 { 1 } else { 2 * p2i((t - 1) as nat) }
}
pub proof fn lemma_p2i(t: nat)
    requires t <= 16
    ensures p2i(t) == (1u32 << (t as u32)) as int, p2i(t) >= 1, t <= 15 ==> p2i(t) == p2(t) as int
    decreases t
{
    let tt = t as u32;
    if t == 0 {
        assert((1u32 << 0u32) == 1u32) by (bit_vector);
        assert((1u16 << 0u16) == 1u16) by (bit_vector);
    } else {
        lemma_p2i((t - 1) as nat);
        assert((1u32 << tt) == 2 * (1u32 << ((tt - 1) as u32)) && (1u32 << tt) >= 1) by (bit_vector) requires 1 <= tt <= 16;
        let t16 = t as u16;
        if t <= 15 { assert((1u16 << t16) as u32 == (1u32 << tt)) by (bit_vector) requires tt <= 15, t16 as u32 == tt; }
    }
}

// one step of the temp[] recurrence of initialize_skew, log domain -> field
pub proof fn lemma_log_step(t: u16, tn: u16)
    requires t != 0, t != one(), tn != 0, tn != one()
    ensures gf_mul_log(t, add_mod_spec(skew_L(t ^ 1), (65535 - skew_L(gf_mul_log(tn, skew_L(tn ^ 1)))) as u16))
        == fmul(fas(t), finv(fas(tn)))
{
    lemma_one();
    lemma_xor_basic(t, 1, 0); lemma_xor_basic(tn, 1, 0);
    let t1 = (t ^ 1) as u16; let tn1 = (tn ^ 1) as u16;
    assert(t1 != 0 && tn1 != 0);
    // the normaliser
    lemma_gf_mul_log_L(tn, tn1);
    let nn = fas(tn);
    assert(gf_mul_log(tn, skew_L(tn1)) == nn);
    lemma_fmul_nz(tn, tn1);
    lemma_skew_L(nn);
    let ln = skew_L(nn);
    let lnrm = (65535 - ln) as u16;
    assert(cantor(finv(nn)) == gpow(lnrm as nat)) by { lemma_cantor_inverse(pinv(cantor(nn))); }
    // the sum of logs
    lemma_skew_L(t1);
    let l1 = skew_L(t1);
    lemma_add_mod_gpow(l1, lnrm);
    lemma_gpow_pmul(l1 as nat, lnrm as nat);
    let am = add_mod_spec(l1, lnrm);
    let c = fmul(t1, finv(nn));
    assert(gpow(am as nat) == cantor(c)) by { lemma_cantor_inverse(pmul(cantor(t1), cantor(finv(nn)))); }
    lemma_gf_mul_log_gpow(t, am, c);
    lemma_fmul_assoc(t, t1, finv(nn));
}

pub proof fn lemma_temp_shat(m: nat, b: int)
    requires m <= b <= 14
    ensures skew_temp(m, b) == shat(m, p2((b + 1) as nat))
    decreases m
{
    if m > 0 {
        let k = (m - 1) as nat;
        lemma_temp_shat(k, b);
        lemma_temp_shat(k, k as int);
        let t = skew_temp(k, b); let tn = skew_temp(k, k as int);
        lemma_shat_regular(k, (b + 1) as nat);
        lemma_shat_regular(k, m);
        lemma_log_step(t, tn);
        lemma_shat_unfold(k, p2((b + 1) as nat));
        assert(skew_nrm(k) == (65535 - skew_L(gf_mul_log(tn, skew_L(tn ^ 1)))) as u16);
        assert(skew_temp(m, b) == gf_mul_log(t, add_mod_spec(skew_L(t ^ 1), skew_nrm(k))));
    }
}

// bits m+1 ..= n of x
pub open spec fn bits_of(x: u16, m: nat, n: int) -> u16 {
    (((x >> ((m + 1) as u16)) << ((m + 1) as u16)) as u16) & ((0xffffu16 >> ((15 - n) as u16)) as u16)
}
pub proof fn lemma_xor_shat(m: nat, x: u16, n: int)
    requires m <= 14, m <= n <= 15
    ensures skew_xor(m, x, n) == shat(m, bits_of(x, m, n))
    decreases n
{
    let m1 = (m + 1) as u16; let nn = n as u16;
    if n <= m {
        assert((((x >> m1) << m1) as u16) & ((0xffffu16 >> ((15 - nn) as u16)) as u16) == 0) by (bit_vector) requires m1 == nn + 1, m1 <= 15;
        lemma_shat_kernel(m, 0);
        assert(0u16 < (1u16 << ((m1 - 1) as u16))) by (bit_vector) requires 1 <= m1 <= 15;
    } else {
        lemma_xor_shat(m, x, n - 1);
        lemma_temp_shat(m, n - 1);
        let lo = bits_of(x, m, n - 1);
        let e = if bit(x, n) { p2(n as nat) } else { 0u16 };
        assert(((((x >> m1) << m1) as u16) & ((0xffffu16 >> ((15 - nn) as u16)) as u16))
            == ((((x >> m1) << m1) as u16) & ((0xffffu16 >> ((15 - (nn - 1)) as u16)) as u16)) ^ (if (x >> nn) & 1 == 1 { (1u16 << nn) as u16 } else { 0u16 }))
            by (bit_vector) requires m1 <= nn, nn <= 15;
        assert(bits_of(x, m, n) == lo ^ e);
        lemma_shat_add(m, lo, e);
        lemma_shat_kernel(m, 0);
        assert(0u16 < (1u16 << ((m1 - 1) as u16))) by (bit_vector) requires 1 <= m1 <= 15;
    }
}

// hypothesis form of Theorem A, for an arbitrary table
pub open spec fn skew_at(skew: Seq<u16>, m: nat, r: int) -> u16 { skew[r + p2i(m) - 1] }
pub open spec fn skew_is_shat(skew: Seq<u16>) -> bool {
    forall|m: nat, r: int| m <= 15 && 0 <= r && r % p2i(m + 1) == 0 && r + p2i(m) - 1 < 65535
        ==> #[trigger] skew_at(skew, m, r) == skew_L(shat(m, r as u16))
}

// Theorem A: entry r + 2^m - 1 (r a multiple of 2^(m+1)) is the logarithm of shat(m, r)
pub proof fn lemma_skew_shat(m: nat, r: int)
    requires m <= 15, 0 <= r, r % p2i(m + 1) == 0, r + p2i(m) - 1 < 65535
    ensures skew_spec()[r + p2i(m) - 1] == skew_L(shat(m, r as u16))
{
    reveal(skew_spec);
    lemma_p2i(m); lemma_p2i(m + 1);
    let j = (r + p2i(m) - 1) as u16;
    assert(skew_spec()[r + p2i(m) - 1] == skew_L(skew_raw(j)));
    if m == 15 {
        assert((1u32 << 16u32) == 65536u32 && (1u32 << 15u32) == 32768u32) by (bit_vector);
        assert(r == 0) by {
            if r != 0 { lemma_mult(0, 65536); lemma_mult_step(0, r, 65536); }
        }
        assert(lowzero(32767u16, 0) == 15) by (compute_only);
        lemma_shat_kernel(15, 0);
        assert(0u16 < (1u16 << 15u16)) by (bit_vector);
    } else {
        let ru = r as u16; let mm = m as u16;
        let r32 = r as u32; let m32 = m as u32;
        assert(r32 % (1u32 << ((m32 + 1) as u32)) == 0);
        assert(r32 + (1u32 << m32) - 1 < 65535);
        assert(((r32 + (1u32 << m32) - 1) as u16) & (((1u16 << ((mm + 1) as u16)) - 1) as u16) == ((1u16 << mm) - 1) as u16
            && ((((((r32 + (1u32 << m32) - 1) as u16) >> ((mm + 1) as u16)) << ((mm + 1) as u16)) as u16) & ((0xffffu16 >> 0u16) as u16)) == r32 as u16)
            by (bit_vector) requires m32 <= 14, mm as u32 == m32, r32 % (1u32 << ((m32 + 1) as u32)) == 0, r32 + (1u32 << m32) - 1 < 65535;
        assert(lzmask(j, m as int));
        lemma_lz_iff(j, m as int);
        assert(skew_raw(j) == skew_xor(m, j, 15));
        lemma_xor_shat(m, j, 15);
        assert(bits_of(j, m, 15) == ru);
    }
}
pub proof fn lemma_skew_spec_is_shat()
    ensures skew_is_shat(skew_spec()), skew_spec().len() == 65535
{
    reveal(skew_spec);
    assert forall|m: nat, r: int| m <= 15 && 0 <= r && r % p2i(m + 1) == 0 && r + p2i(m) - 1 < 65535
        implies #[trigger] skew_at(skew_spec(), m, r) == skew_L(shat(m, r as u16)) by {
        lemma_skew_shat(m, r);
    }
}

// ---------------------------------------------------------------- the LCH basis and slot-wise evaluation
// X_j(x) = product over the set bits i of j of shat(i, x)
pub open spec fn xb(j: u16, x: u16, nb: nat) -> u16
    decreases nb
{
    if nb == 0 { one() } else {
        let i = (nb - 1) as nat;
        fmul(xb(j, x, i), if bit(j, i as int) { shat(i, x) } else { one() })
    }
}
pub open spec fn X(j: u16, x: u16) -> u16 { xb(j, x, 16) }
// XOR over j < n of c[j] * X_j(x)
pub open spec fn eval_upto(c: Seq<u16>, x: u16, n: int) -> u16
    decreases n
{
    if n <= 0 { 0 } else { eval_upto(c, x, n - 1) ^ fmul(c[n - 1], X((n - 1) as u16, x)) }
}
pub open spec fn eval_lch(c: Seq<u16>, x: u16) -> u16 { eval_upto(c, x, c.len() as int) }
pub open spec fn column(s: Seq<Sv>, k: int) -> Seq<u16> { Seq::new(s.len(), |j: int| s[j][k]) }

pub proof fn lemma_xb_low(j: u16, j2: u16, x: u16, nb: nat)
    requires nb <= 16, forall|i: int| 0 <= i < nb ==> bit(j, i) == bit(j2, i)
    ensures xb(j, x, nb) == xb(j2, x, nb)
    decreases nb
{
    if nb > 0 { lemma_xb_low(j, j2, x, (nb - 1) as nat); }
}
pub proof fn lemma_xb_zero(x: u16, nb: nat)
    requires nb <= 16
    ensures xb(0, x, nb) == one()
    decreases nb
{
    if nb > 0 {
        lemma_xb_zero(x, (nb - 1) as nat);
        let i = (nb - 1) as u16;
        assert((0u16 >> i) & 1 != 1) by (bit_vector);
        lemma_fmul_one(one());
    }
}
// X_{j + 2^e}(x) == X_j(x) * shat(e, x) for j < 2^e
pub proof fn lemma_xb_high(j: u16, x: u16, e: nat, nb: nat)
    requires e <= 15, j < p2(e), e < nb <= 16
    ensures xb((j | p2(e)) as u16, x, nb) == fmul(xb(j, x, nb), shat(e, x))
    decreases nb
{
    let ee = e as u16;
    let jh = (j | p2(e)) as u16;
    let i = (nb - 1) as nat; let ii = i as u16;
    if nb == e + 1 {
        assert forall|i2: int| 0 <= i2 < e implies bit(jh, i2) == bit(j, i2) by {
            let i3 = i2 as u16;
            assert(((j | (1u16 << ee)) >> i3) & 1 == (j >> i3) & 1) by (bit_vector) requires i3 < ee, ee <= 15;
        }
        lemma_xb_low(jh, j, x, e);
        assert(((j | (1u16 << ee)) >> ee) & 1 == 1 && (j >> ee) & 1 != 1) by (bit_vector) requires j < (1u16 << ee), ee <= 15;
        lemma_fmul_one(xb(j, x, e));
    } else {
        lemma_xb_high(j, x, e, i);
        assert(((j | (1u16 << ee)) >> ii) & 1 != 1 && (j >> ii) & 1 != 1) by (bit_vector) requires j < (1u16 << ee), ee < ii, ii <= 15;
        lemma_fmul_one(xb(j, x, i));
        lemma_fmul_one(xb(jh, x, i));
    }
}

pub proof fn lemma_eval_ext(a: Seq<u16>, b: Seq<u16>, x: u16, n: int)
    requires forall|j: int| 0 <= j < n ==> a[j] == b[j]
    ensures eval_upto(a, x, n) == eval_upto(b, x, n)
    decreases n
{
    if n > 0 { lemma_eval_ext(a, b, x, n - 1); }
}
// evaluation is linear in the coefficient vector
pub proof fn lemma_eval_lin(c: Seq<u16>, a: Seq<u16>, b: Seq<u16>, mu: u16, x: u16, n: int)
    requires forall|j: int| 0 <= j < n ==> c[j] == a[j] ^ fmul(b[j], mu)
    ensures eval_upto(c, x, n) == eval_upto(a, x, n) ^ fmul(eval_upto(b, x, n), mu)
    decreases n
{
    if n > 0 {
        lemma_eval_lin(c, a, b, mu, x, n - 1);
        let xx = X((n - 1) as u16, x);
        let aj = a[n - 1]; let bj = b[n - 1];
        let ea = eval_upto(a, x, n - 1); let eb = eval_upto(b, x, n - 1);
        lemma_fmul_xor_l(aj, fmul(bj, mu), xx);
        // (bj * mu) * xx == (bj * xx) * mu
        lemma_fmul_assoc(bj, mu, xx); lemma_fmul_comm(mu, xx); lemma_fmul_assoc(bj, xx, mu);
        lemma_fmul_xor_l(eb, fmul(bj, xx), mu);
        let p = fmul(aj, xx); let q = fmul(fmul(bj, xx), mu); let em = fmul(eb, mu);
        assert((ea ^ em) ^ (p ^ q) == (ea ^ p) ^ (em ^ q)) by (bit_vector);
    } else {
        lemma_fmul_zero(mu);
        assert(0u16 ^ 0u16 == 0u16) by (bit_vector);
    }
}
// splitting off the top index bit: for c of length 2 * 2^e
pub proof fn lemma_eval_split(c: Seq<u16>, hi: Seq<u16>, x: u16, e: nat, n: int)
    requires e <= 15, 0 <= n <= p2i(e), forall|j: int| 0 <= j < n ==> hi[j] == c[j + p2i(e)]
    ensures eval_upto(c, x, p2i(e) + n) == eval_upto(c, x, p2i(e)) ^ fmul(eval_upto(hi, x, n), shat(e, x))
    decreases n
{
    lemma_p2i(e);
    let h = p2i(e);
    let sh = shat(e, x);
    if n > 0 {
        lemma_eval_split(c, hi, x, e, n - 1);
        let j = (n - 1) as u16;
        let jh = (h + n - 1) as u16;
        let ee = e as u16;
        assert((j | (1u16 << ee)) as u32 == j as u32 + (1u16 << ee) as u32) by (bit_vector) requires j < (1u16 << ee), ee <= 15;
        assert(jh == (j | p2(e)) as u16);
        lemma_xb_high(j, x, e, 16);
        let cj = hi[n - 1];
        assert(c[h + n - 1] == cj);
        lemma_fmul_assoc(cj, X(j, x), sh);
        let e0 = eval_upto(c, x, h); let eh = eval_upto(hi, x, n - 1);
        lemma_fmul_xor_l(eh, fmul(cj, X(j, x)), sh);
        let p = fmul(eh, sh); let q = fmul(fmul(cj, X(j, x)), sh);
        assert((e0 ^ p) ^ q == e0 ^ (p ^ q)) by (bit_vector);
        assert(eval_upto(c, x, h + n) == eval_upto(c, x, h + n - 1) ^ fmul(c[h + n - 1], X(jh, x)));
    } else {
        lemma_fmul_zero(sh);
        lemma_xor_basic(eval_upto(c, x, h), 0, 0);
    }
}

// ---------------------------------------------------------------- the butterfly network is recursive
pub proof fn lemma_mod_add(a: int, b: int, w: int)
    requires w > 0, a % w == 0, b % w == 0
    ensures (a + b) % w == 0
{
    let k1 = lemma_is_mult(a, w); let k2 = lemma_is_mult(b, w);
    assert(a + b == (k1 + k2) * w) by (nonlinear_arith) requires a == k1 * w, b == k2 * w;
    lemma_mult(k1 + k2, w);
}
// one layer of distance d (2d | h) acts on the two halves of a 2h-region separately; the upper half sees delta + h
pub proof fn lemma_layer_split(s: Seq<Sv>, h: int, d: int, delta: int, skew: Seq<u16>)
    requires s.len() == 2 * h, d >= 1, h % (2 * d) == 0, h >= 1
    ensures
        fft_layer(s, d, delta, skew).subrange(0, h) =~= fft_layer(s.subrange(0, h), d, delta, skew),
        fft_layer(s, d, delta, skew).subrange(h, 2 * h) =~= fft_layer(s.subrange(h, 2 * h), d, delta + h, skew),
{
    let l = fft_layer(s, d, delta, skew);
    let lo = s.subrange(0, h); let hi = s.subrange(h, 2 * h);
    let llo = fft_layer(lo, d, delta, skew); let lhi = fft_layer(hi, d, delta + h, skew);
    assert forall|q: int| 0 <= q < h implies #[trigger] l[q] == llo[q] by {
        lemma_partner(q, h, d);
    }
    assert forall|q: int| 0 <= q < h implies #[trigger] l[q + h] == lhi[q] by {
        lemma_partner(q, h, d);
        let r = bstart(q, 2 * d);
        lemma_bstart_le(q, 2 * d);
        lemma_mod_add(r, h, 2 * d);
        lemma_bstart(q + h, r + h, 2 * d);
        assert(r + h + d + delta - 1 == r + d + (delta + h) - 1);
    }
    assert forall|q: int| 0 <= q < h implies #[trigger] l.subrange(h, 2 * h)[q] == lhi[q] by {
        assert(l.subrange(h, 2 * h)[q] == l[q + h]);
    }
}
pub proof fn lemma_fft_split(s: Seq<Sv>, h: int, d: int, delta: int, skew: Seq<u16>)
    requires s.len() == 2 * h, h >= 1, d < 1 || (is_pow2(d) && h % (2 * d) == 0)
    ensures fft_from(s, d, delta, skew)
        =~= fft_from(s.subrange(0, h), d, delta, skew) + fft_from(s.subrange(h, 2 * h), d, delta + h, skew)
    decreases d
{
    if d >= 1 {
        lemma_pow2_basic(d);
        lemma_layer_split(s, h, d, delta, skew);
        let s1 = fft_layer(s, d, delta, skew);
        if d >= 2 {
            lemma_pow2_half(d);
            assert(2 * (d / 2) == d);
            lemma_half_block(h, d / 2);
        }
        lemma_fft_split(s1, h, d / 2, delta, skew);
    } else {
        assert(s =~= s.subrange(0, h) + s.subrange(h, 2 * h));
    }
}
pub proof fn lemma_p2i_pow2(t: nat)
    ensures is_pow2(p2i(t)), p2i(t) >= 1, p2i(t + 1) == 2 * p2i(t), p2i(t + 1) / 2 == p2i(t)
    decreases t
{
    if t > 0 { lemma_p2i_pow2((t - 1) as nat); lemma_pow2_basic(p2i((t - 1) as nat)); }
}
// distance of the first layer of a 2^t-point transform
pub open spec fn hd(t: nat) -> int { if t == 0 { 0 } else { p2i((t - 1) as nat) } }

// the first layer (distance h = 2^e on 2h shards, one block), in field terms
pub proof fn lemma_layer_top(s: Seq<Sv>, e: nat, delta: int, skew: Seq<u16>, w: nat, j: int, k: int)
    requires e <= 15, s.len() == 2 * p2i(e), rect(s, w), 0 <= delta, delta % p2i(e + 1) == 0, delta + 2 * p2i(e) <= 65536,
        skew_is_shat(skew), 0 <= j < p2i(e), 0 <= k < w
    ensures ({
        let h = p2i(e); let v = shat(e, delta as u16); let s1 = fft_layer(s, h, delta, skew);
        &&& s1[j][k] == s[j][k] ^ fmul(s[j + h][k], v)
        &&& s1[j + h][k] == s[j][k] ^ fmul(s[j + h][k], v ^ one())
    })
{
    lemma_p2i_pow2(e);
    let h = p2i(e); let v = shat(e, delta as u16); let s1 = fft_layer(s, h, delta, skew);
    lemma_mult(0, 2 * h);
    lemma_bstart(j, 0, 2 * h);
    lemma_bstart(j + h, 0, 2 * h);
    let m = skew[0 + h + delta - 1];
    assert(skew_at(skew, e, delta) == skew_L(v));
    assert(m == skew_L(v));
    lemma_skew_L(v);
    let a = s[j][k]; let b = s[j + h][k];
    assert(s1[j] == fft_a(s[j], s[j + h], m));
    assert(s1[j + h] == fft_b(s[j], s[j + h], m));
    let a1 = fft_a(s[j], s[j + h], m)[k];
    assert(a1 == a ^ fmul(b, v)) by {
        if v != 0 { lemma_gf_mul_log_L(b, v); } else { lemma_fmul_zero(b); lemma_xor_basic(a, 0, 0); }
    }
    assert(fft_b(s[j], s[j + h], m)[k] == b ^ a1);
    lemma_fmul_xor_r(b, v, one());
    lemma_fmul_one(b);
    let bv = fmul(b, v);
    assert(b ^ (a ^ bv) == a ^ (bv ^ b)) by (bit_vector);
}

// ---------------------------------------------------------------- Theorem B: FFT = evaluation in the LCH basis
// points delta + i of the two halves of an aligned 2 * 2^e block, as XORs
pub proof fn lemma_point_bits(delta: int, i: int, e: nat)
    requires e <= 15, 0 <= delta, delta % p2i(e + 1) == 0, delta + 2 * p2i(e) <= 65536, 0 <= i < p2i(e)
    ensures
        (i as u16) < p2(e),
        (delta + i) as u16 == (delta as u16) ^ (i as u16),
        (delta + p2i(e) + i) as u16 == (((delta as u16) ^ p2(e)) as u16) ^ (i as u16),
{
    lemma_p2i(e); lemma_p2i(e + 1);
    let d32 = delta as u32; let i32 = i as u32; let e32 = e as u32; let ee = e as u16;
    assert(d32 % (1u32 << ((e32 + 1) as u32)) == 0);
    assert((i32 as u16) < (1u16 << ee)
        && (d32 + i32) as u16 == (d32 as u16) ^ (i32 as u16)
        && (d32 + (1u32 << e32) + i32) as u16 == (((d32 as u16) ^ (1u16 << ee)) as u16) ^ (i32 as u16)) by (bit_vector)
        requires e32 <= 15, ee as u32 == e32, d32 % (1u32 << ((e32 + 1) as u32)) == 0, d32 + 2 * (1u32 << e32) <= 65536, i32 < (1u32 << e32);
}

pub proof fn lemma_fft_eval_t(s: Seq<Sv>, t: nat, delta: int, skew: Seq<u16>, w: nat, i: int, k: int)
    requires t <= 16, s.len() == p2i(t), rect(s, w), 0 <= delta, delta % p2i(t) == 0, delta + p2i(t) <= 65536,
        skew_is_shat(skew), 0 <= i < p2i(t), 0 <= k < w
    ensures fft_from(s, hd(t), delta, skew)[i][k] == eval_lch(column(s, k), (delta + i) as u16)
    decreases t
{
    let c = column(s, k);
    if t == 0 {
        let x = (delta + i) as u16;
        lemma_xb_zero(x, 16);
        lemma_fmul_one(c[0]);
        lemma_xor_basic(c[0], 0, 0);
        assert(eval_upto(c, x, 0) == 0);
        assert(eval_upto(c, x, 1) == eval_upto(c, x, 0) ^ fmul(c[0], X(0u16, x)));
    } else {
        let e = (t - 1) as nat;
        lemma_p2i_pow2(e);
        let h = p2i(e); let n = 2 * h;
        let s1 = fft_layer(s, h, delta, skew);
        lemma_mult(1, n);
        lemma_layer_rect(s, h, delta, skew, w);
        assert(fft_from(s, h, delta, skew) == fft_from(s1, h / 2, delta, skew));
        assert(h / 2 == hd(e)) by { if e > 0 { lemma_p2i_pow2((e - 1) as nat); } }
        if e > 0 { lemma_p2i_pow2((e - 1) as nat); lemma_mult(1, h); }
        lemma_fft_split(s1, h, hd(e), delta, skew);
        let lo1 = s1.subrange(0, h); let hi1 = s1.subrange(h, 2 * h);
        let flo = fft_from(lo1, hd(e), delta, skew); let fhi = fft_from(hi1, hd(e), delta + h, skew);
        lemma_fft_len(lo1, hd(e), delta, skew); lemma_fft_len(hi1, hd(e), delta + h, skew);
        // delta is a multiple of h as well
        lemma_half_divides(delta, n);
        lemma_mult(1, h);
        lemma_mod_add(delta, h, h);
        let v = shat(e, delta as u16);
        let b = Seq::new(h as nat, |j: int| s[j + h][k]);
        lemma_point_bits(delta, if i < h { i } else { i - h }, e);
        let x = (delta + i) as u16;
        lemma_eval_split(c, b, x, e, h);
        if i < h {
            assert(fft_from(s, hd(t), delta, skew)[i] == flo[i]);
            lemma_fft_eval_t(lo1, e, delta, skew, w, i, k);
            let c1 = column(lo1, k);
            assert forall|j: int| 0 <= j < h implies c1[j] == c[j] ^ fmul(b[j], v) by {
                lemma_layer_top(s, e, delta, skew, w, j, k);
            }
            lemma_eval_lin(c1, c, b, v, x, h);
            lemma_shat_coset(e, delta as u16, i as u16);
        } else {
            assert(fft_from(s, hd(t), delta, skew)[i] == fhi[i - h]);
            lemma_fft_eval_t(hi1, e, delta + h, skew, w, i - h, k);
            let c1 = column(hi1, k);
            let v1 = (v ^ one()) as u16;
            assert forall|j: int| 0 <= j < h implies c1[j] == c[j] ^ fmul(b[j], v1) by {
                lemma_layer_top(s, e, delta, skew, w, j, k);
            }
            lemma_eval_lin(c1, c, b, v1, x, h);
            lemma_shat_coset(e, delta as u16, (i - h) as u16);
        }
    }
}

pub proof fn lemma_pow2_exp(n: int) -> (t: nat)
    requires is_pow2(n)
    ensures n == p2i(t)
    decreases n
{
    if n == 1 { 0 } else { let t0 = lemma_pow2_exp(n / 2); t0 + 1 }
}
pub proof fn lemma_p2i_mono(a: nat, b: nat)
    requires a <= b
    ensures p2i(a) <= p2i(b)
    decreases b
{
    if a < b { lemma_p2i_mono(a, (b - 1) as nat); lemma_p2i_pow2((b - 1) as nat); }
}
pub proof fn lemma_pow2_exp16(n: int) -> (t: nat)
    requires is_pow2(n), n <= 65536
    ensures n == p2i(t), t <= 16
{
    let t = lemma_pow2_exp(n);
    if t > 16 { lemma_p2i_mono(17, t); assert(p2i(17) == 131072) by (compute_only); }
    t
}

// Theorem B relative to an arbitrary table satisfying the Theorem-A equation
pub proof fn theorem_fft_eval_rel(s: Seq<Sv>, delta: int, skew: Seq<u16>, w: nat, i: int, k: int)
    requires is_pow2(s.len() as int), s.len() <= 65536, rect(s, w), 0 <= delta, delta % (s.len() as int) == 0, delta + s.len() <= 65536,
        skew_is_shat(skew), 0 <= i < s.len(), 0 <= k < w
    ensures fft_ref(s, delta, skew)[i][k] == eval_lch(column(s, k), (delta + i) as u16)
{
    let t = lemma_pow2_exp16(s.len() as int);
    assert(s.len() as int / 2 == hd(t)) by { if t > 0 { lemma_p2i_pow2((t - 1) as nat); } }
    lemma_fft_eval_t(s, t, delta, skew, w, i, k);
}
// Theorem B for the real SKEW table
pub proof fn theorem_fft_eval(s: Seq<Sv>, delta: int, w: nat, i: int, k: int)
    requires is_pow2(s.len() as int), s.len() <= 65536, rect(s, w), 0 <= delta, delta % (s.len() as int) == 0, delta + s.len() <= 65536,
        0 <= i < s.len(), 0 <= k < w
    ensures fft_ref(s, delta, skew_spec())[i][k] == eval_lch(column(s, k), (delta + i) as u16)
{
    lemma_skew_spec_is_shat();
    theorem_fft_eval_rel(s, delta, skew_spec(), w, i, k);
}
// Corollary: ifft_ref is interpolation - it returns LCH coefficients whose polynomial takes the given values at delta + i,
// and these are the only such coefficients obtainable by fft_ref (ifft_ref(fft_ref(s)) == s)
pub proof fn theorem_ifft_interp(vals: Seq<Sv>, delta: int, w: nat, i: int, k: int)
    requires is_pow2(vals.len() as int), vals.len() <= 65536, rect(vals, w), 0 <= delta, delta % (vals.len() as int) == 0, delta + vals.len() <= 65536,
        0 <= i < vals.len(), 0 <= k < w
    ensures eval_lch(column(ifft_ref(vals, delta, skew_spec()), k), (delta + i) as u16) == vals[i][k]
{
    let skew = skew_spec();
    let c = ifft_ref(vals, delta, skew);
    lemma_mult(1, vals.len() as int);
    lemma_ifft_upto_rect(vals, vals.len() as int, delta, skew, w);
    lemma_fft_ifft_ref(vals, delta, skew, w);
    theorem_fft_eval(c, delta, w, i, k);
}
pub proof fn theorem_ifft_recovers(s: Seq<Sv>, delta: int, w: nat)
    requires is_pow2(s.len() as int), s.len() <= 65536, rect(s, w), 0 <= delta, delta % (s.len() as int) == 0, delta + s.len() <= 65536,
    ensures
        ifft_ref(fft_ref(s, delta, skew_spec()), delta, skew_spec()) == s,
        forall|i: int, k: int| 0 <= i < s.len() && 0 <= k < w ==>
            #[trigger] fft_ref(s, delta, skew_spec())[i][k] == eval_lch(column(s, k), (delta + i) as u16),
{
    lemma_ifft_fft_ref(s, delta, skew_spec(), w);
    assert forall|i: int, k: int| 0 <= i < s.len() && 0 <= k < w implies
        #[trigger] fft_ref(s, delta, skew_spec())[i][k] == eval_lch(column(s, k), (delta + i) as u16) by {
        theorem_fft_eval(s, delta, w, i, k);
    }
}
