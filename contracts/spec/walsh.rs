use vstd::prelude::*;
use crate::vspec::tables::add_mod_spec;
use crate::vspec::arith::*;
// Walsh-Hadamard transform over Z/65535 as a layered butterfly network (reference algorithm of engine::fwht).

// utils::sub_mod: x - y modulo 65535 (0 and 65535 both stand for residue 0)
pub open spec fn sub_mod_spec(x: u16, y: u16) -> u16 {
    if x >= y { (x - y) as u16 } else { (x - y + 65535) as u16 }
}
// one butterfly layer at distance d
pub open spec fn wht_layer(s: Seq<u16>, d: int) -> Seq<u16> {
    Seq::new(s.len(), |q: int| if q % (2 * d) < d { add_mod_spec(s[q], s[q + d]) } else { sub_mod_spec(s[q - d], s[q]) })
}
// all layers with distance < d  (d a power of two)
pub open spec fn wht_upto(s: Seq<u16>, d: int) -> Seq<u16>
    decreases d
{
    if d <= 1 { s } else { wht_layer(wht_upto(s, d / 2), d / 2) }
}
pub open spec fn wht_ref(s: Seq<u16>) -> Seq<u16> { wht_upto(s, 65536) }
pub open spec fn wht2(s: Seq<u16>, d: int) -> Seq<u16> { wht_layer(wht_layer(s, d), 2 * d) }

// the distances fwht's outer loop goes through
pub open spec fn dist_ok(d: int) -> bool {
    d == 1 || d == 4 || d == 16 || d == 64 || d == 256 || d == 1024 || d == 4096 || d == 16384
}

pub proof fn lemma_wht_len(s: Seq<u16>, d: int)
    ensures wht_upto(s, d).len() == s.len()
    decreases d
{
    if d > 1 { lemma_wht_len(s, d / 2); }
}

pub proof fn lemma_dist_ok(d: int)
    requires dist_ok(d)
    ensures d > 0, is_pow2(d), is_pow2(4 * d), 65536int % (4 * d) == 0, 4 * d <= 65536, dist_ok(4 * d) || 4 * d == 65536
{
    assert(is_pow2(65536)) by (compute_only);
    if d == 1 { assert(is_pow2(1)) by (compute_only); assert(is_pow2(4)) by (compute_only); }
    else if d == 4 { assert(is_pow2(4)) by (compute_only); assert(is_pow2(16)) by (compute_only); }
    else if d == 16 { assert(is_pow2(16)) by (compute_only); assert(is_pow2(64)) by (compute_only); }
    else if d == 64 { assert(is_pow2(64)) by (compute_only); assert(is_pow2(256)) by (compute_only); }
    else if d == 256 { assert(is_pow2(256)) by (compute_only); assert(is_pow2(1024)) by (compute_only); }
    else if d == 1024 { assert(is_pow2(1024)) by (compute_only); assert(is_pow2(4096)) by (compute_only); }
    else if d == 4096 { assert(is_pow2(4096)) by (compute_only); assert(is_pow2(16384)) by (compute_only); }
    else { assert(is_pow2(16384)) by (compute_only); }
    lemma_pow2_divides(4 * d, 65536);
}

pub proof fn lemma_wht_two_more(s: Seq<u16>, d: int)
    requires dist_ok(d)
    ensures wht_upto(s, 4 * d) == wht2(wht_upto(s, d), d)
{
    assert((4 * d) / 2 == 2 * d);
    assert((2 * d) / 2 == d);
    reveal_with_fuel(wht_upto, 3);
}

// the four outputs of one radix-4 butterfly of fwht_4 are the two-layer reference at its four indices
pub proof fn lemma_wht2_point(s: Seq<u16>, d: int, r: int, o: int)
    requires d > 0, s.len() == 65536, 0 <= r, r % (4 * d) == 0, r + 4 * d <= 65536, 0 <= o < d
    ensures ({
        let i0 = r + o; let i1 = i0 + d; let i2 = i0 + 2 * d; let i3 = i0 + 3 * d;
        let s0 = add_mod_spec(s[i0], s[i1]); let d0 = sub_mod_spec(s[i0], s[i1]);
        let s1 = add_mod_spec(s[i2], s[i3]); let d1 = sub_mod_spec(s[i2], s[i3]);
        &&& wht2(s, d)[i0] == add_mod_spec(s0, s1)
        &&& wht2(s, d)[i1] == add_mod_spec(d0, d1)
        &&& wht2(s, d)[i2] == sub_mod_spec(s0, s1)
        &&& wht2(s, d)[i3] == sub_mod_spec(d0, d1)
    })
{
    let i0 = r + o; let i1 = i0 + d; let i2 = i0 + 2 * d; let i3 = i0 + 3 * d;
    let l = wht_layer(s, d);
    lemma_half_block(r, d);
    lemma_bstart(i0, r, 2 * d); lemma_bstart(i1, r, 2 * d);
    lemma_bstart(i2, r + 2 * d, 2 * d); lemma_bstart(i3, r + 2 * d, 2 * d);
    lemma_bstart(i0, r, 4 * d); lemma_bstart(i1, r, 4 * d); lemma_bstart(i2, r, 4 * d); lemma_bstart(i3, r, 4 * d);
    assert(i0 % (2 * d) < d && i1 % (2 * d) >= d && i2 % (2 * d) < d && i3 % (2 * d) >= d);
    assert(i0 % (4 * d) < 2 * d && i1 % (4 * d) < 2 * d && i2 % (4 * d) >= 2 * d && i3 % (4 * d) >= 2 * d);
    assert(l[i0] == add_mod_spec(s[i0], s[i1]));
    assert(l[i1] == sub_mod_spec(s[i0], s[i1]));
    assert(l[i2] == add_mod_spec(s[i2], s[i3]));
    assert(l[i3] == sub_mod_spec(s[i2], s[i3]));
    assert(2 * (2 * d) == 4 * d);
}

// butterfly partners of q (distance d and 2d) stay inside [r, 65536) when r is 4d-aligned
pub proof fn lemma_nbr(q: int, r: int, d: int)
    requires d > 0, 0 <= r, r % (4 * d) == 0, 65536int % (4 * d) == 0, r <= q < 65536
    ensures
        q % (2 * d) < d ==> q + d < 65536,
        q % (2 * d) >= d ==> q - d >= r,
        q % (4 * d) < 2 * d ==> q + 2 * d < 65536,
        q % (4 * d) >= 2 * d ==> q - 2 * d >= r,
{
    let w = 4 * d;
    let b = bstart(q, w);
    lemma_bstart_le(q, w);
    if b < r { lemma_mult_step(b, r, w); }
    lemma_mult_step(b, 65536, w);
    lemma_bstart(q, b, w);
    lemma_half_block(b, d);
    if q < b + 2 * d { lemma_bstart(q, b, 2 * d); } else { lemma_bstart(q, b + 2 * d, 2 * d); }
}

// a 4d-aligned tail of zeros stays zero under two layers
pub proof fn lemma_wht2_zero(s: Seq<u16>, d: int, r: int, q: int)
    requires d > 0, 65536int % (4 * d) == 0, s.len() == 65536, 0 <= r, r % (4 * d) == 0, r <= q < 65536,
        forall|i: int| r <= i < 65536 ==> s[i] == 0
    ensures wht2(s, d)[q] == 0
{
    let l = wht_layer(s, d);
    assert(add_mod_spec(0, 0) == 0) by (compute_only);
    assert(sub_mod_spec(0, 0) == 0);
    lemma_nbr(q, r, d);
    assert forall|i: int| r <= i < 65536 implies l[i] == 0 by {
        lemma_nbr(i, r, d);
    }
    assert(2 * (2 * d) == 4 * d);
}

// (e * f) reduced modulo 65535 the way utils::eval_poly does it
pub open spec fn mul_mod_spec(e: u16, f: u16) -> u16 {
    let p = (e as u32 * f as u32) as u32;
    add_mod_spec((p & 0xffff) as u16, (p >> 16) as u16)
}
// utils::eval_poly: WHT, pointwise product with LOG_WALSH, WHT
pub open spec fn eval_poly_ref(s: Seq<u16>) -> Seq<u16> {
    let a = wht_ref(s);
    wht_ref(Seq::new(65536, |j: int| mul_mod_spec(a[j], crate::vspec::tables::log_walsh_spec()[j])))
}
