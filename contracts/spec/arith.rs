use vstd::prelude::*;
// integer helper lemmas (blocks, multiples, powers of two)

pub open spec fn is_pow2(n: int) -> bool decreases n { n == 1 || (n > 1 && n % 2 == 0 && is_pow2(n / 2)) }

// start of the w-aligned block containing q
pub open spec fn bstart(q: int, w: int) -> int { q - q % w }

pub proof fn lemma_mult(k: int, w: int)
    requires w > 0
    ensures (k * w) % w == 0, (w * k) % w == 0, k * w == w * k, (k * w) / w == k
{
    assert(k * w == w * k) by (nonlinear_arith);
    vstd::arithmetic::div_mod::lemma_fundamental_div_mod_converse(k * w, w, k, 0);
}
pub proof fn lemma_is_mult(r: int, w: int) -> (k: int)
    requires w > 0, r % w == 0
    ensures r == k * w, k == r / w
{
    vstd::arithmetic::div_mod::lemma_fundamental_div_mod(r, w);
    assert(w * (r / w) == (r / w) * w) by (nonlinear_arith);
    r / w
}
pub proof fn lemma_bstart(q: int, r: int, w: int)
    requires w > 0, r % w == 0, r <= q < r + w
    ensures bstart(q, w) == r, q % w == q - r
{
    let k = lemma_is_mult(r, w);
    vstd::arithmetic::div_mod::lemma_fundamental_div_mod_converse(q, w, k, q - r);
}


pub proof fn lemma_pow2_basic(n: int)
    requires is_pow2(n)
    ensures n >= 1, is_pow2(2 * n), n == 1 || (n % 2 == 0 && n / 2 >= 1)
    decreases n
{
    if n > 1 { lemma_pow2_basic(n / 2); }
    assert(is_pow2(2 * n)) by { assert((2 * n) / 2 == n); assert((2 * n) % 2 == 0); }
}
pub proof fn lemma_pow2_half(n: int)
    requires is_pow2(n), n >= 2
    ensures is_pow2(n / 2), n % 2 == 0, (n == 2 || (n / 2) % 2 == 0)
{
    lemma_pow2_basic(n / 2);
}
// a power of two w <= 2*size... divides the power of two `size` when w <= size
pub proof fn lemma_pow2_divides(w: int, n: int)
    requires is_pow2(w), is_pow2(n), w <= n
    ensures n % w == 0
    decreases n
{
    if w == n { lemma_mult(1, w); } else {
        lemma_pow2_basic(w);
        lemma_pow2_basic(n);
        lemma_pow2_le_half(w, n);
        lemma_pow2_divides(w, n / 2);
        // n = 2*(n/2), (n/2) % w == 0
        let k = lemma_is_mult(n / 2, w);
        assert(n == (2 * k) * w) by (nonlinear_arith) requires n == 2 * (n / 2), n / 2 == k * w;
        lemma_mult(2 * k, w);
    }
}
pub proof fn lemma_pow2_le_half(w: int, n: int)
    requires is_pow2(w), is_pow2(n), w < n
    ensures w <= n / 2, is_pow2(n / 2)
    decreases n
{
    lemma_pow2_basic(w); lemma_pow2_basic(n);
    if w == 1 { } else {
        // both even
        lemma_pow2_le_half(w / 2, n / 2);
    }
}
// r and n multiples of w, r < n  ==>  r + w <= n, and r+w is a multiple
pub proof fn lemma_mult_step(r: int, n: int, w: int)
    requires w > 0, r % w == 0, n % w == 0, 0 <= r, r < n
    ensures r + w <= n, (r + w) % w == 0
{
    let a = lemma_is_mult(r, w); let b = lemma_is_mult(n, w);
    assert(a < b) by (nonlinear_arith) requires a * w < b * w, w > 0;
    assert((a + 1) * w <= b * w) by (nonlinear_arith) requires a + 1 <= b, w > 0;
    assert((a + 1) * w == a * w + w) by (nonlinear_arith);
    lemma_mult(a + 1, w);
}
// the 2w-aligned block start is not after the w-aligned one
pub proof fn lemma_coarser(q: int, w: int)
    requires w > 0, q >= 0
    ensures bstart(q, 2 * w) <= bstart(q, w)
{
    lemma_bstart_le(q, w);
    lemma_bstart_le(q, 2 * w);
    let b = bstart(q, w); let c = bstart(q, 2 * w);
    // c is a multiple of 2w hence of w; c <= q < b + w; if c > b then c >= b + w > q, contradiction
    let k = lemma_is_mult(c, 2 * w);
    assert(c == (2 * k) * w) by (nonlinear_arith) requires c == k * (2 * w);
    lemma_mult(2 * k, w);
    if c > b { lemma_mult_step(b, c, w); }
}
pub proof fn lemma_bstart_le(q: int, w: int)
    requires w > 0, q >= 0
    ensures 0 <= bstart(q, w) <= q, bstart(q, w) % w == 0, q < bstart(q, w) + w
{
    vstd::arithmetic::div_mod::lemma_fundamental_div_mod(q, w);
    vstd::arithmetic::div_mod::lemma_mod_bound(q, w);
    let k = q / w;
    assert(bstart(q, w) == w * k);
    lemma_mult(k, w);
}


// a coarser aligned block starts no later than a finer one (w divides big)
pub proof fn lemma_coarser_gen(q: int, w: int, big: int)
    requires w > 0, big > 0, big % w == 0, q >= 0
    ensures bstart(q, big) <= bstart(q, w)
{
    lemma_bstart_le(q, w);
    lemma_bstart_le(q, big);
    let b = bstart(q, w); let c = bstart(q, big);
    let k = lemma_is_mult(c, big);
    let j = lemma_is_mult(big, w);
    assert(c == (k * j) * w) by (nonlinear_arith) requires c == k * big, big == j * w;
    lemma_mult(k * j, w);
    if c > b { lemma_mult_step(b, c, w); }
}
pub proof fn lemma_shr2(x: usize)
    ensures (x >> 2) == x / 4
{
    assert((x >> 2) == x / 4) by (bit_vector);
}
// powers of two: 4d | 16d etc.
pub proof fn lemma_pow2_quarter(n: int)
    requires is_pow2(n), n >= 4
    ensures is_pow2(n / 4), n % 4 == 0, is_pow2(n / 2), n % 2 == 0, (n / 2) % 2 == 0
{
    lemma_pow2_half(n);
    lemma_pow2_half(n / 2);
}

// a multiple of 4d is a multiple of 2d, and so is that multiple plus 2d
pub proof fn lemma_half_block(r: int, d: int)
    requires d > 0, r % (4 * d) == 0, r >= 0
    ensures r % (2 * d) == 0, (r + 2 * d) % (2 * d) == 0
{
    let k = lemma_is_mult(r, 4 * d);
    assert(r == (2 * k) * (2 * d)) by (nonlinear_arith) requires r == k * (4 * d);
    lemma_mult(2 * k, 2 * d);
    assert(r + 2 * d == (2 * k + 1) * (2 * d)) by (nonlinear_arith) requires r == (2 * k) * (2 * d);
    lemma_mult(2 * k + 1, 2 * d);
}

pub proof fn lemma_shl2(x: usize)
    requires x <= 0x1000_0000_0000
    ensures (x << 2) == x * 4
{
    assert((x << 2) == x * 4) by (bit_vector) requires x <= 0x1000_0000_0000usize;
}

// two powers of two with a <= b < 2a are equal
pub proof fn lemma_pow2_between(a: int, b: int)
    requires is_pow2(a), is_pow2(b), a <= b, b < 2 * a
    ensures a == b
    decreases a
{
    lemma_pow2_basic(a); lemma_pow2_basic(b);
    if a == 1 { if b != 1 { assert(b % 2 == 0); } }
    else if b == 1 { }
    else { lemma_pow2_between(a / 2, b / 2); }
}
