use vstd::prelude::*;
use crate::vspec::gf::*;
use crate::vspec::arith::*;
// Reference transforms on shard *symbol vectors* (Seq<u16>, one entry per symbol slot).
// Every operation is slot-wise by definition, which is what C04 ("slots never interact") rests on.

pub type Sv = Seq<u16>;

pub open spec fn v_xor(a: Sv, b: Sv) -> Sv { Seq::new(a.len(), |k: int| a[k] ^ b[k]) }
pub open spec fn v_mul(a: Sv, m: u16) -> Sv { Seq::new(a.len(), |k: int| gf_mul_log(a[k], m)) }
pub open spec fn v_muladd(a: Sv, b: Sv, m: u16) -> Sv { Seq::new(a.len(), |k: int| a[k] ^ gf_mul_log(b[k], m)) }
pub open spec fn v_zero(n: nat) -> Sv { Seq::new(n, |k: int| 0u16) }

// butterflies; a twiddle of 65535 is log(0): "multiply by zero", i.e. no mul_add
pub open spec fn fft_a(a: Sv, b: Sv, m: u16) -> Sv { if m != 65535 { v_muladd(a, b, m) } else { a } }
pub open spec fn fft_b(a: Sv, b: Sv, m: u16) -> Sv { v_xor(b, fft_a(a, b, m)) }
pub open spec fn ifft_b(a: Sv, b: Sv, m: u16) -> Sv { v_xor(b, a) }
pub open spec fn ifft_a(a: Sv, b: Sv, m: u16) -> Sv { if m != 65535 { v_muladd(a, ifft_b(a, b, m), m) } else { a } }

// one full butterfly layer of distance `dist` (block width 2*dist) over a region of s.len() shards
pub open spec fn fft_layer(s: Seq<Sv>, dist: int, delta: int, skew: Seq<u16>) -> Seq<Sv> {
    Seq::new(s.len(), |q: int| {
        let r = bstart(q, 2 * dist);
        let m = skew[r + dist + delta - 1];
        if q - r < dist { fft_a(s[q], s[q + dist], m) } else { fft_b(s[q - dist], s[q], m) }
    })
}
pub open spec fn ifft_layer(s: Seq<Sv>, dist: int, delta: int, skew: Seq<u16>) -> Seq<Sv> {
    Seq::new(s.len(), |q: int| {
        let r = bstart(q, 2 * dist);
        let m = skew[r + dist + delta - 1];
        if q - r < dist { ifft_a(s[q], s[q + dist], m) } else { ifft_b(s[q - dist], s[q], m) }
    })
}

// FFT: layers dist, dist/2, ..., 1
pub open spec fn fft_from(s: Seq<Sv>, dist: int, delta: int, skew: Seq<u16>) -> Seq<Sv>
    decreases dist
{
    if dist < 1 { s } else { fft_from(fft_layer(s, dist, delta, skew), dist / 2, delta, skew) }
}
pub open spec fn fft_ref(s: Seq<Sv>, delta: int, skew: Seq<u16>) -> Seq<Sv> { fft_from(s, s.len() as int / 2, delta, skew) }

// IFFT: layers 1, 2, ..., size/2
pub open spec fn ifft_upto(s: Seq<Sv>, dist: int, delta: int, skew: Seq<u16>) -> Seq<Sv>
    decreases dist
{
    // all layers with distance < dist (dist a power of two)
    if dist <= 1 { s } else { ifft_layer(ifft_upto(s, dist / 2, delta, skew), dist / 2, delta, skew) }
}
pub open spec fn ifft_ref(s: Seq<Sv>, delta: int, skew: Seq<u16>) -> Seq<Sv> { ifft_upto(s, s.len() as int, delta, skew) }

pub open spec fn is_zero(v: Sv) -> bool { forall|k: int| 0 <= k < v.len() ==> #[trigger] v[k] == 0 }

pub proof fn lemma_bf_zero(a: Sv, b: Sv, m: u16)
    requires is_zero(a), is_zero(b), a.len() == b.len()
    ensures is_zero(ifft_a(a, b, m)), is_zero(ifft_b(a, b, m)), ifft_a(a, b, m) =~= a, ifft_b(a, b, m) =~= b
{
    assert(0u16 ^ 0u16 == 0u16) by (bit_vector);
    assert forall|k: int| 0 <= k < a.len() implies #[trigger] ifft_b(a, b, m)[k] == 0 by {}
    assert forall|k: int| 0 <= k < a.len() implies #[trigger] ifft_a(a, b, m)[k] == 0 by {
        lemma_gf_zero(m);
    }
}

// a w=2*dist block starting at b0 >= trunc whose two dist-halves are zero stays zero through the layer
pub proof fn lemma_zero_block(cur: Seq<Sv>, q: int, b0: int, dist: int, trunc: int, delta: int, skew: Seq<u16>)
    requires dist >= 1, b0 % (2 * dist) == 0, b0 <= q < b0 + 2 * dist, b0 + 2 * dist <= cur.len(), b0 >= trunc, 0 <= b0,
        forall|p: int| 0 <= p < cur.len() && bstart(p, dist) >= trunc ==> is_zero(#[trigger] cur[p]),
        forall|p: int, p2: int| 0 <= p < cur.len() && 0 <= p2 < cur.len() ==> cur[p].len() == cur[p2].len(),
    ensures is_zero(ifft_layer(cur, dist, delta, skew)[q]), ifft_layer(cur, dist, delta, skew)[q] =~= cur[q]
{
    lemma_bstart(q, b0, 2 * dist);
    // bstart(p, dist) >= b0 >= trunc for the two partners
    let p1 = if q - b0 < dist { q } else { q - dist };
    let p2 = p1 + dist;
    lemma_bstart_le(p1, dist); lemma_bstart_le(p2, dist);
    // b0 is a multiple of dist as well
    let k = lemma_is_mult(b0, 2 * dist);
    assert(b0 == (2 * k) * dist) by (nonlinear_arith) requires b0 == k * (2 * dist);
    lemma_mult(2 * k, dist);
    if bstart(p1, dist) < b0 { lemma_mult_step(bstart(p1, dist), b0, dist); }
    if bstart(p2, dist) < b0 { lemma_mult_step(bstart(p2, dist), b0, dist); }
    assert(is_zero(cur[p1]) && is_zero(cur[p2]));
    let m = skew[b0 + dist + delta - 1];
    lemma_bf_zero(cur[p1], cur[p2], m);
}

// positions of the 4*dist block at r already rewritten after the inner loop of a two-layer schedule reached i
pub open spec fn done4(q: int, r: int, i: int, dist: int) -> bool {
    (r <= q < i) || (r + dist <= q < i + dist) || (r + 2 * dist <= q < i + 2 * dist) || (r + 3 * dist <= q < i + 3 * dist)
}

// two inverse layers (dist then 2*dist) keep an all-zero 4*dist block zero
pub proof fn lemma_zero_block4(cur: Seq<Sv>, q: int, b0: int, dist: int, trunc: int, delta: int, skew: Seq<u16>)
    requires dist >= 1, b0 % (4 * dist) == 0, b0 <= q < b0 + 4 * dist, b0 + 4 * dist <= cur.len(), b0 >= trunc, 0 <= b0,
        forall|p: int| 0 <= p < cur.len() && bstart(p, dist) >= trunc ==> is_zero(#[trigger] cur[p]),
        forall|p: int, p2: int| 0 <= p < cur.len() && 0 <= p2 < cur.len() ==> cur[p].len() == cur[p2].len(),
    ensures
        is_zero(ifft_layer(ifft_layer(cur, dist, delta, skew), 2 * dist, delta, skew)[q]),
        ifft_layer(ifft_layer(cur, dist, delta, skew), 2 * dist, delta, skew)[q] =~= cur[q],
{
    let l1 = ifft_layer(cur, dist, delta, skew);
    lemma_half_block(b0, dist);
    lemma_bstart(q, b0, 4 * dist);
    // every position of the block is zero after the first layer and equals cur there
    assert forall|p: int| b0 <= p < b0 + 4 * dist implies is_zero(#[trigger] l1[p]) && l1[p] =~= cur[p] by {
        if p < b0 + 2 * dist { lemma_zero_block(cur, p, b0, dist, trunc, delta, skew); }
        else { lemma_zero_block(cur, p, b0 + 2 * dist, dist, trunc, delta, skew); }
    }
    // second layer on the block
    let p1 = if q - b0 < 2 * dist { q } else { q - 2 * dist };
    let p2 = p1 + 2 * dist;
    let m = skew[b0 + 2 * dist + delta - 1];
    assert(is_zero(l1[p1]) && is_zero(l1[p2]));
    assert(l1[p1].len() == l1[p2].len()) by { assert(l1[p1] =~= cur[p1]); assert(l1[p2] =~= cur[p2]); }
    lemma_bf_zero(l1[p1], l1[p2], m);
    assert(l1[q] =~= cur[q]);
}

// formal derivative in the LCH basis, as the schedule of `utils::formal_derivative`:
// for i = 1..n: shards [i-w, i) ^= shards [i, i+w), w = lowest set bit of i
pub open spec fn low_bit(i: int) -> int
    decreases i
{
    if i <= 0 { 0 } else if i % 2 == 1 { 1 } else { 2 * low_bit(i / 2) }
}
pub open spec fn deriv_step(s: Seq<Sv>, i: int) -> Seq<Sv> {
    let w = low_bit(i);
    Seq::new(s.len(), |q: int| if i - w <= q < i { v_xor(s[q], s[q + w]) } else { s[q] })
}
pub open spec fn deriv_upto(s: Seq<Sv>, k: int) -> Seq<Sv>
    decreases k
{
    if k <= 1 { s } else { deriv_step(deriv_upto(s, k - 1), k - 1) }
}
pub open spec fn deriv_ref(s: Seq<Sv>) -> Seq<Sv> { deriv_upto(s, s.len() as int) }

pub proof fn lemma_deriv_len(s: Seq<Sv>, k: int)
    ensures deriv_upto(s, k).len() == s.len()
    decreases k
{
    if k > 1 { lemma_deriv_len(s, k - 1); }
}

pub proof fn lemma_low_bit(i: int, n: int)
    requires 1 <= i < n, is_pow2(n)
    ensures 1 <= low_bit(i) <= i, i + low_bit(i) <= n, i % low_bit(i) == 0
    decreases i
{
    lemma_pow2_basic(n);
    if i % 2 == 1 {
        // n is even (n > i >= 1 and a power of two), so i + 1 <= n
        assert(n % 2 == 0);
    } else {
        lemma_low_bit(i / 2, n / 2);
        let w = low_bit(i / 2);
        let k = lemma_is_mult(i / 2, w);
        assert(i == k * (2 * w)) by (nonlinear_arith) requires i == 2 * (i / 2), i / 2 == k * w;
        lemma_mult(k, 2 * w);
    }
}
