use vstd::prelude::*;
use crate::vspec::gf::*;
use crate::vspec::xform::*;
use crate::vspec::codec::*;
use crate::vspec::arith::*;
use crate::vspec::linear::*;
// The inverse butterfly network undoes the forward one (and vice versa), for every skew table and skew delta:
// ifft_ref(fft_ref(s)) == s and fft_ref(ifft_ref(s)) == s.

pub proof fn lemma_xor_cancel(x: u16, y: u16)
    ensures (x ^ y) ^ y == x, y ^ (x ^ y) == x, (y ^ x) ^ x == y
{
    assert((x ^ y) ^ y == x) by (bit_vector);
    assert(y ^ (x ^ y) == x) by (bit_vector);
    assert((y ^ x) ^ x == y) by (bit_vector);
}

// one butterfly: inverse after forward
pub proof fn lemma_bf_inverse_if(a: Sv, b: Sv, m: u16)
    requires a.len() == b.len()
    ensures
        ifft_a(fft_a(a, b, m), fft_b(a, b, m), m) =~= a,
        ifft_b(fft_a(a, b, m), fft_b(a, b, m), m) =~= b,
{
    let fa = fft_a(a, b, m); let fb = fft_b(a, b, m);
    assert(fa.len() == a.len() && fb.len() == a.len());
    let ib = ifft_b(fa, fb, m);
    assert forall|k: int| 0 <= k < a.len() implies #[trigger] ib[k] == b[k] by {
        // (b ^ fa) ^ fa
        lemma_xor_cancel(b[k], fa[k]);
    }
    assert(ib =~= b);
    let ia = ifft_a(fa, fb, m);
    assert forall|k: int| 0 <= k < a.len() implies #[trigger] ia[k] == a[k] by {
        if m != 65535 {
            // (a ^ g(b)) ^ g(ib) with ib == b
            lemma_xor_cancel(a[k], gf_mul_log(b[k], m));
        }
    }
}

// one butterfly: forward after inverse
pub proof fn lemma_bf_inverse_fi(a: Sv, b: Sv, m: u16)
    requires a.len() == b.len()
    ensures
        fft_a(ifft_a(a, b, m), ifft_b(a, b, m), m) =~= a,
        fft_b(ifft_a(a, b, m), ifft_b(a, b, m), m) =~= b,
{
    let ia = ifft_a(a, b, m); let ib = ifft_b(a, b, m);
    assert(ia.len() == a.len() && ib.len() == a.len());
    let fa = fft_a(ia, ib, m);
    assert forall|k: int| 0 <= k < a.len() implies #[trigger] fa[k] == a[k] by {
        if m != 65535 {
            // (a ^ g(ib)) ^ g(ib)
            lemma_xor_cancel(a[k], gf_mul_log(ib[k], m));
        }
    }
    assert(fa =~= a);
    let fb = fft_b(ia, ib, m);
    assert forall|k: int| 0 <= k < a.len() implies #[trigger] fb[k] == b[k] by {
        // (b ^ a) ^ a
        lemma_xor_cancel(b[k], a[k]);
    }
}

pub proof fn lemma_bf_inverse(a: Sv, b: Sv, m: u16)
    requires a.len() == b.len()
    ensures
        ifft_a(fft_a(a, b, m), fft_b(a, b, m), m) =~= a,
        ifft_b(fft_a(a, b, m), fft_b(a, b, m), m) =~= b,
        fft_a(ifft_a(a, b, m), ifft_b(a, b, m), m) =~= a,
        fft_b(ifft_a(a, b, m), ifft_b(a, b, m), m) =~= b,
{
    lemma_bf_inverse_if(a, b, m);
    lemma_bf_inverse_fi(a, b, m);
}

// both partners of q lie in the same 2*dist block
pub proof fn lemma_partner_block(q: int, len: int, dist: int)
    requires dist >= 1, len % (2 * dist) == 0, 0 <= q < len
    ensures ({
        let r = bstart(q, 2 * dist);
        &&& 0 <= r <= q < r + 2 * dist
        &&& (q - r < dist ==> q + dist < len && bstart(q + dist, 2 * dist) == r)
        &&& (q - r >= dist ==> q - dist >= 0 && bstart(q - dist, 2 * dist) == r)
    })
{
    lemma_partner(q, len, dist);
    let r = bstart(q, 2 * dist);
    lemma_bstart_le(q, 2 * dist);
    if q - r < dist { lemma_bstart(q + dist, r, 2 * dist); } else { lemma_bstart(q - dist, r, 2 * dist); }
}

// layers keep the shape
pub proof fn lemma_layer_rect(s: Seq<Sv>, dist: int, delta: int, skew: Seq<u16>, n: nat)
    requires rect(s, n), dist >= 1, (s.len() as int) % (2 * dist) == 0
    ensures
        rect(fft_layer(s, dist, delta, skew), n), fft_layer(s, dist, delta, skew).len() == s.len(),
        rect(ifft_layer(s, dist, delta, skew), n), ifft_layer(s, dist, delta, skew).len() == s.len(),
{
    assert forall|q: int| 0 <= q < s.len() implies (#[trigger] fft_layer(s, dist, delta, skew)[q]).len() == n by {
        lemma_partner(q, s.len() as int, dist);
    }
    assert forall|q: int| 0 <= q < s.len() implies (#[trigger] ifft_layer(s, dist, delta, skew)[q]).len() == n by {
        lemma_partner(q, s.len() as int, dist);
    }
}

pub proof fn lemma_layer_inverse_if(s: Seq<Sv>, dist: int, delta: int, skew: Seq<u16>, n: nat)
    requires rect(s, n), dist >= 1, (s.len() as int) % (2 * dist) == 0
    ensures ifft_layer(fft_layer(s, dist, delta, skew), dist, delta, skew) =~= s
{
    let l = fft_layer(s, dist, delta, skew);
    let x = ifft_layer(l, dist, delta, skew);
    assert forall|q: int| 0 <= q < s.len() implies #[trigger] x[q] == s[q] by {
        lemma_partner_block(q, s.len() as int, dist);
        let r = bstart(q, 2 * dist);
        let m = skew[r + dist + delta - 1];
        if q - r < dist {
            assert(l[q] == fft_a(s[q], s[q + dist], m));
            assert(l[q + dist] == fft_b(s[q], s[q + dist], m));
            lemma_bf_inverse_if(s[q], s[q + dist], m);
            assert(x[q] == ifft_a(l[q], l[q + dist], m));
        } else {
            assert(l[q - dist] == fft_a(s[q - dist], s[q], m));
            assert(l[q] == fft_b(s[q - dist], s[q], m));
            lemma_bf_inverse_if(s[q - dist], s[q], m);
            assert(x[q] == ifft_b(l[q - dist], l[q], m));
        }
    }
}

pub proof fn lemma_layer_inverse_fi(s: Seq<Sv>, dist: int, delta: int, skew: Seq<u16>, n: nat)
    requires rect(s, n), dist >= 1, (s.len() as int) % (2 * dist) == 0
    ensures fft_layer(ifft_layer(s, dist, delta, skew), dist, delta, skew) =~= s
{
    let l = ifft_layer(s, dist, delta, skew);
    let x = fft_layer(l, dist, delta, skew);
    assert forall|q: int| 0 <= q < s.len() implies #[trigger] x[q] == s[q] by {
        lemma_partner_block(q, s.len() as int, dist);
        let r = bstart(q, 2 * dist);
        let m = skew[r + dist + delta - 1];
        if q - r < dist {
            assert(l[q] == ifft_a(s[q], s[q + dist], m));
            assert(l[q + dist] == ifft_b(s[q], s[q + dist], m));
            lemma_bf_inverse_fi(s[q], s[q + dist], m);
            assert(x[q] == fft_a(l[q], l[q + dist], m));
        } else {
            assert(l[q - dist] == ifft_a(s[q - dist], s[q], m));
            assert(l[q] == ifft_b(s[q - dist], s[q], m));
            lemma_bf_inverse_fi(s[q - dist], s[q], m);
            assert(x[q] == fft_b(l[q - dist], l[q], m));
        }
    }
}

// one layer: inverse after forward, forward after inverse
pub proof fn lemma_layer_inverse(s: Seq<Sv>, dist: int, delta: int, skew: Seq<u16>, n: nat)
    requires rect(s, n), dist >= 1, (s.len() as int) % (2 * dist) == 0
    ensures
        ifft_layer(fft_layer(s, dist, delta, skew), dist, delta, skew) =~= s,
        fft_layer(ifft_layer(s, dist, delta, skew), dist, delta, skew) =~= s,
{
    lemma_layer_inverse_if(s, dist, delta, skew, n);
    lemma_layer_inverse_fi(s, dist, delta, skew, n);
}

// d | len for a power of two d >= 2  ==>  d/2 | len, and d/2 is a power of two with 2 * (d/2) == d
pub proof fn lemma_half_divides(len: int, d: int)
    requires is_pow2(d), d >= 2, len >= 0, len % d == 0
    ensures is_pow2(d / 2), 2 * (d / 2) == d, d / 2 >= 1, len % (d / 2) == 0
{
    lemma_pow2_half(d);
    let h = d / 2;
    assert(2 * h == d);
    let k = lemma_is_mult(len, d);
    assert(len == (2 * k) * h) by (nonlinear_arith) requires len == k * d, d == 2 * h;
    lemma_mult(2 * k, h);
}

pub proof fn lemma_ifft_upto_rect(s: Seq<Sv>, d: int, delta: int, skew: Seq<u16>, n: nat)
    requires rect(s, n), d <= 1 || (is_pow2(d) && (s.len() as int) % d == 0)
    ensures rect(ifft_upto(s, d, delta, skew), n), ifft_upto(s, d, delta, skew).len() == s.len()
    decreases d
{
    if d > 1 {
        lemma_half_divides(s.len() as int, d);
        lemma_ifft_upto_rect(s, d / 2, delta, skew, n);
        lemma_layer_rect(ifft_upto(s, d / 2, delta, skew), d / 2, delta, skew, n);
    }
}

// IFFT layers 1 .. d/2 undo FFT layers d/2 .. 1
pub proof fn lemma_ifft_fft_upto(s: Seq<Sv>, d: int, delta: int, skew: Seq<u16>, n: nat)
    requires rect(s, n), is_pow2(d), (s.len() as int) % d == 0
    ensures ifft_upto(fft_from(s, d / 2, delta, skew), d, delta, skew) == s
    decreases d
{
    lemma_pow2_basic(d);
    if d >= 2 {
        let h = d / 2;
        lemma_half_divides(s.len() as int, d);
        let t1 = fft_layer(s, h, delta, skew);
        lemma_layer_rect(s, h, delta, skew, n);
        // fft_from(s, h) == fft_from(t1, h / 2)
        let y = fft_from(s, h, delta, skew);
        assert(y == fft_from(t1, h / 2, delta, skew));
        lemma_ifft_fft_upto(t1, h, delta, skew, n);
        assert(ifft_upto(y, h, delta, skew) == t1);
        assert(ifft_upto(y, d, delta, skew) == ifft_layer(ifft_upto(y, h, delta, skew), h, delta, skew));
        lemma_layer_inverse_if(s, h, delta, skew, n);
        assert(ifft_layer(t1, h, delta, skew) =~= s);
    } else {
        assert(d == 1);
        assert(fft_from(s, 0, delta, skew) == s);
    }
}

// FFT layers d/2 .. 1 undo IFFT layers 1 .. d/2
pub proof fn lemma_fft_ifft_upto(s: Seq<Sv>, d: int, delta: int, skew: Seq<u16>, n: nat)
    requires rect(s, n), is_pow2(d), (s.len() as int) % d == 0
    ensures fft_from(ifft_upto(s, d, delta, skew), d / 2, delta, skew) == s
    decreases d
{
    lemma_pow2_basic(d);
    if d >= 2 {
        let h = d / 2;
        lemma_half_divides(s.len() as int, d);
        let u = ifft_upto(s, h, delta, skew);
        lemma_ifft_upto_rect(s, h, delta, skew, n);
        let y = ifft_layer(u, h, delta, skew);
        assert(ifft_upto(s, d, delta, skew) == y);
        // fft_from(y, h) == fft_from(fft_layer(y, h), h / 2) == fft_from(u, h / 2)
        lemma_layer_inverse_fi(u, h, delta, skew, n);
        assert(fft_layer(y, h, delta, skew) =~= u);
        assert(fft_from(y, h, delta, skew) == fft_from(fft_layer(y, h, delta, skew), h / 2, delta, skew));
        lemma_fft_ifft_upto(s, h, delta, skew, n);
    } else {
        assert(d == 1);
        assert(ifft_upto(s, 1, delta, skew) == s);
        assert(fft_from(s, 0, delta, skew) == s);
    }
}

pub proof fn lemma_ifft_fft_ref(s: Seq<Sv>, delta: int, skew: Seq<u16>, n: nat)
    requires rect(s, n), is_pow2(s.len() as int)
    ensures ifft_ref(fft_ref(s, delta, skew), delta, skew) == s
{
    let len = s.len() as int;
    lemma_pow2_basic(len);
    lemma_mult(1, len);
    lemma_fft_len(s, len / 2, delta, skew);
    lemma_ifft_fft_upto(s, len, delta, skew, n);
}

pub proof fn lemma_fft_ifft_ref(s: Seq<Sv>, delta: int, skew: Seq<u16>, n: nat)
    requires rect(s, n), is_pow2(s.len() as int)
    ensures fft_ref(ifft_ref(s, delta, skew), delta, skew) == s
{
    let len = s.len() as int;
    lemma_pow2_basic(len);
    lemma_mult(1, len);
    lemma_ifft_len(s, len, delta, skew);
    lemma_fft_ifft_upto(s, len, delta, skew, n);
}
