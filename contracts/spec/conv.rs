use vstd::prelude::*;
use vstd::arithmetic::div_mod::*;
use crate::vspec::tables::{add_mod_spec, log_table_spec, log_walsh_spec};
use crate::vspec::walsh::*;
use crate::vspec::arith::*;
// XOR-convolution theorem for the Walsh-Hadamard transform over Z/65535 (what utils::eval_poly computes).
//   res(v)            residue of a u16 modulo 65535 (0 and 65535 both stand for 0)
//   ht(f, r, t, k)    entry k of the un-normalised, un-reduced size-2^t Hadamard transform of f[r .. r + 2^t)  (exact integers)
//   cv(f, rf, g, rg, x, n) = sum_{j<n} f[rf + j] * g[rg + (x xor j)]
// Part 1: residue semantics of add_mod / sub_mod / mul_mod.
// Part 2: res(wht_ref(s)[k]) == ht(residues of s, 0, 16, k) % 65535.
// Part 3: ht(ht(f) .* ht(g))[x] == 2^t * (f xor-convolved g)[x]   (exact, induction on the dimension).
// Part 4: eval_poly_ref(e)[x] is, modulo 65535, the sum over j of e[j] * L'[x xor j].

pub open spec fn res(v: u16) -> int { (v as int) % 65535 }

// ---------------------------------------------------------------- Part 1: primitives modulo 65535

pub proof fn lemma_res_add(x: u16, y: u16)
    ensures res(add_mod_spec(x, y)) == (res(x) + res(y)) % 65535
{
    let sum = (x as u32 + y as u32) as u32;
    let r = ((sum + (sum >> 16)) as u32 & 0xffff) as u16;
    assert(sum < 65536 ==> (sum + (sum >> 16)) as u32 & 0xffff == sum) by (bit_vector) requires sum <= 131070u32;
    assert(sum >= 65536 ==> (sum + (sum >> 16)) as u32 & 0xffff == sum - 65535) by (bit_vector) requires sum <= 131070u32;
    assert(add_mod_spec(x, y) == r);
    let a = x as int; let b = y as int;
    assert(r as int == a + b || r as int == a + b - 65535);
    lemma_add_mod_noop(a, b, 65535);
    if r as int == a + b - 65535 {
        lemma_mod_multiples_vanish(-1, a + b, 65535);
    }
}

pub proof fn lemma_res_sub(x: u16, y: u16)
    ensures res(sub_mod_spec(x, y)) == (res(x) - res(y)) % 65535
{
    let a = x as int; let b = y as int;
    let r = sub_mod_spec(x, y);
    assert(r as int == a - b || r as int == a - b + 65535);
    lemma_sub_mod_noop(a, b, 65535);
    if r as int == a - b + 65535 {
        lemma_mod_multiples_vanish(1, a - b, 65535);
    }
}

pub proof fn lemma_res_mul(e: u16, f: u16)
    ensures res(mul_mod_spec(e, f)) == (res(e) * res(f)) % 65535
{
    let a = e as int; let b = f as int;
    assert(0 <= a * b <= 65535 * 65535) by (nonlinear_arith) requires 0 <= a <= 65535, 0 <= b <= 65535;
    let p = (e as u32 * f as u32) as u32;
    assert(p as int == a * b);
    let lo = (p & 0xffff) as u16; let hi = (p >> 16) as u16;
    assert(p & 0xffff == p % 65536 && p >> 16 == p / 65536 && (p >> 16) <= 65535 && (p & 0xffff) <= 65535) by (bit_vector);
    let l = lo as int; let h = hi as int;
    assert(p as int == 65536 * h + l);
    lemma_res_add(lo, hi);
    lemma_add_mod_noop(l, h, 65535);
    // p == 65535 * h + (h + l)
    lemma_mod_multiples_vanish(h, l + h, 65535);
    assert((p as int) % 65535 == (l + h) % 65535);
    lemma_mul_mod_noop_general(a, b, 65535);
}

// ---------------------------------------------------------------- powers of two, index xor

pub open spec fn p2(t: nat) -> int decreases t { if t == 0 { 1 } else { 2 * p2((t - 1) as nat) } }

pub proof fn lemma_p2(t: nat)
    ensures p2(t) >= 1, is_pow2(p2(t)), p2(t + 1) == 2 * p2(t), p2(t + 1) / 2 == p2(t)
    decreases t
{
    if t > 0 { lemma_p2((t - 1) as nat); lemma_pow2_basic(p2((t - 1) as nat)); }
}
pub proof fn lemma_p2_mono(a: nat, b: nat)
    requires a <= b
    ensures p2(a) <= p2(b)
    decreases b
{
    if a < b { lemma_p2_mono(a, (b - 1) as nat); lemma_p2((b - 1) as nat); }
}
pub proof fn lemma_p2_16()
    ensures p2(16) == 65536
{
    assert(p2(16) == 65536) by (compute_only);
}
pub proof fn lemma_p2_shl(t: nat)
    requires t <= 15
    ensures p2(t) == (1u16 << (t as u16)) as int
    decreases t
{
    if t == 0 { assert(1u16 << 0u16 == 1u16) by (bit_vector); }
    else {
        lemma_p2_shl((t - 1) as nat);
        let a = (t - 1) as u16; let b = t as u16;
        assert((1u16 << b) as int == 2 * (1u16 << a)) by (bit_vector) requires b == a + 1, b <= 15u16;
    }
}

// bitwise xor of two indices
pub open spec fn xr(x: int, j: int) -> int { ((x as u16) ^ (j as u16)) as int }

// xor and the top bit of a 2^(t+1) block
pub proof fn lemma_xr_split(t: nat, x: int, j: int)
    requires t <= 15, 0 <= x < p2(t), 0 <= j < p2(t)
    ensures ({
        let h = p2(t);
        &&& 0 <= xr(x, j) < h
        &&& xr(x, h + j) == h + xr(x, j)
        &&& xr(h + x, j) == h + xr(x, j)
        &&& xr(h + x, h + j) == xr(x, j)
    })
{
    lemma_p2_shl(t);
    let tt = t as u16; let hu = 1u16 << tt; let xu = x as u16; let ju = j as u16;
    assert(hu as int == p2(t));
    assert(hu <= 32768) by (bit_vector) requires hu == 1u16 << tt, tt <= 15;
    assert((xu ^ ju) < hu
        && xu ^ ((hu + ju) as u16) == hu + (xu ^ ju)
        && ((hu + xu) as u16) ^ ju == hu + (xu ^ ju)
        && ((hu + xu) as u16) ^ ((hu + ju) as u16) == xu ^ ju) by (bit_vector)
        requires hu == 1u16 << tt, tt <= 15, xu < hu, ju < hu;
    assert((p2(t) + j) as u16 == (hu + ju) as u16);
    assert((p2(t) + x) as u16 == (hu + xu) as u16);
}

// ---------------------------------------------------------------- exact Hadamard transform of a block, by dimension

// entry k (0 <= k < 2^t) of the transform of f[r .. r + 2^t)
pub open spec fn ht(f: Seq<int>, r: int, t: nat, k: int) -> int
    decreases t
{
    if t == 0 { f[r] } else {
        let h = p2((t - 1) as nat);
        if k < h { ht(f, r, (t - 1) as nat, k) + ht(f, r + h, (t - 1) as nat, k) }
        else { ht(f, r, (t - 1) as nat, k - h) - ht(f, r + h, (t - 1) as nat, k - h) }
    }
}

// linearity:  w = a*u + b*v on the blocks  ==>  ht(w) = a*ht(u) + b*ht(v)
pub proof fn lemma_ht_lin(w: Seq<int>, rw: int, u: Seq<int>, ru: int, v: Seq<int>, rv: int, a: int, b: int, t: nat, x: int)
    requires forall|i: int| rw <= i < rw + p2(t) ==> #[trigger] w[i] == a * u[i - rw + ru] + b * v[i - rw + rv]
    ensures ht(w, rw, t, x) == a * ht(u, ru, t, x) + b * ht(v, rv, t, x)
    decreases t
{
    if t == 0 {
        assert(w[rw] == a * u[rw - rw + ru] + b * v[rw - rw + rv]);
    } else {
        let s = (t - 1) as nat; let h = p2(s);
        lemma_p2(s);
        let y = if x < h { x } else { x - h };
        assert forall|i: int| rw + h <= i < rw + h + p2(s) implies #[trigger] w[i] == a * u[i - (rw + h) + (ru + h)] + b * v[i - (rw + h) + (rv + h)] by {
            assert(w[i] == a * u[i - rw + ru] + b * v[i - rw + rv]);
        }
        lemma_ht_lin(w, rw, u, ru, v, rv, a, b, s, y);
        lemma_ht_lin(w, rw + h, u, ru + h, v, rv + h, a, b, s, y);
        let u0 = ht(u, ru, s, y); let u1 = ht(u, ru + h, s, y); let v0 = ht(v, rv, s, y); let v1 = ht(v, rv + h, s, y);
        assert(a * (u0 + u1) + b * (v0 + v1) == (a * u0 + b * v0) + (a * u1 + b * v1)) by (nonlinear_arith);
        assert(a * (u0 - u1) + b * (v0 - v1) == (a * u0 + b * v0) - (a * u1 + b * v1)) by (nonlinear_arith);
    }
}

// congruence: blocks congruent modulo 65535 have congruent transforms
pub proof fn lemma_ht_cong(u: Seq<int>, ru: int, v: Seq<int>, rv: int, t: nat, x: int)
    requires forall|i: int| ru <= i < ru + p2(t) ==> (#[trigger] u[i]) % 65535 == v[i - ru + rv] % 65535
    ensures ht(u, ru, t, x) % 65535 == ht(v, rv, t, x) % 65535
    decreases t
{
    if t == 0 {
        assert(u[ru] % 65535 == v[ru - ru + rv] % 65535);
    } else {
        let s = (t - 1) as nat; let h = p2(s);
        lemma_p2(s);
        let y = if x < h { x } else { x - h };
        assert forall|i: int| ru + h <= i < ru + h + p2(s) implies (#[trigger] u[i]) % 65535 == v[i - (ru + h) + (rv + h)] % 65535 by {
            assert(u[i] % 65535 == v[i - ru + rv] % 65535);
        }
        lemma_ht_cong(u, ru, v, rv, s, y);
        lemma_ht_cong(u, ru + h, v, rv + h, s, y);
        let u0 = ht(u, ru, s, y); let u1 = ht(u, ru + h, s, y); let v0 = ht(v, rv, s, y); let v1 = ht(v, rv + h, s, y);
        lemma_add_mod_noop(u0, u1, 65535); lemma_add_mod_noop(v0, v1, 65535);
        lemma_sub_mod_noop(u0, u1, 65535); lemma_sub_mod_noop(v0, v1, 65535);
    }
}

// ---------------------------------------------------------------- Part 2: the layered reference computes ht modulo 65535

pub open spec fn res_seq(s: Seq<u16>) -> Seq<int> { Seq::new(s.len(), |j: int| res(s[j])) }

pub proof fn lemma_half_mult(r: int, h: int)
    requires h > 0, r % (2 * h) == 0
    ensures r % h == 0, (r + h) % h == 0
{
    let k = lemma_is_mult(r, 2 * h);
    assert(r == (2 * k) * h) by (nonlinear_arith) requires r == k * (2 * h);
    lemma_mult(2 * k, h);
    assert(r + h == (2 * k + 1) * h) by (nonlinear_arith) requires r == (2 * k) * h;
    lemma_mult(2 * k + 1, h);
}

// after the layers of distance < 2^t, entry q holds the transform of its aligned 2^t block at position q mod 2^t
pub proof fn lemma_wht_upto_ht(s: Seq<u16>, t: nat, q: int)
    requires s.len() == 65536, t <= 16, 0 <= q < 65536
    ensures res(wht_upto(s, p2(t))[q]) == ht(res_seq(s), bstart(q, p2(t)), t, q % p2(t)) % 65535
    decreases t
{
    let f = res_seq(s);
    if t == 0 {
        assert(f[q] == res(s[q]));
        lemma_mod_twice(s[q] as int, 65535);
    } else {
        let u = (t - 1) as nat; let h = p2(u);
        lemma_p2(u); lemma_p2(16); lemma_p2_16(); lemma_p2_mono(t, 16);
        lemma_pow2_divides(2 * h, 65536);
        let w = wht_upto(s, h);
        lemma_wht_len(s, h);
        assert(wht_upto(s, 2 * h) == wht_layer(w, h));
        let r = bstart(q, 2 * h);
        lemma_bstart_le(q, 2 * h);
        lemma_mult_step(r, 65536, 2 * h);
        lemma_half_mult(r, h);
        lemma_bstart(q, r, 2 * h);
        if q < r + h {
            let o = q - r;
            lemma_bstart(q, r, h); lemma_bstart(q + h, r + h, h);
            lemma_wht_upto_ht(s, u, q); lemma_wht_upto_ht(s, u, q + h);
            assert(wht_layer(w, h)[q] == add_mod_spec(w[q], w[q + h]));
            lemma_res_add(w[q], w[q + h]);
            lemma_add_mod_noop(ht(f, r, u, o), ht(f, r + h, u, o), 65535);
        } else {
            let o = q - r - h;
            lemma_bstart(q - h, r, h); lemma_bstart(q, r + h, h);
            lemma_wht_upto_ht(s, u, q - h); lemma_wht_upto_ht(s, u, q);
            assert(wht_layer(w, h)[q] == sub_mod_spec(w[q - h], w[q]));
            lemma_res_sub(w[q - h], w[q]);
            lemma_sub_mod_noop(ht(f, r, u, o), ht(f, r + h, u, o), 65535);
        }
    }
}

// "wht_ref computes the Hadamard transform modulo 65535"
pub proof fn lemma_wht_ref_ht(s: Seq<u16>, k: int)
    requires s.len() == 65536, 0 <= k < 65536
    ensures res(wht_ref(s)[k]) == ht(res_seq(s), 0, 16, k) % 65535
{
    lemma_p2_16();
    lemma_wht_upto_ht(s, 16, k);
    lemma_mult(0, 65536);
    lemma_bstart(k, 0, 65536);
}

// ---------------------------------------------------------------- Part 3: the convolution theorem over the integers

// sum_{j<n} f[rf + j] * g[rg + (x xor j)]
pub open spec fn cv(f: Seq<int>, rf: int, g: Seq<int>, rg: int, x: int, n: int) -> int
    decreases n
{
    if n <= 0 { 0 } else { cv(f, rf, g, rg, x, n - 1) + f[rf + n - 1] * g[rg + xr(x, n - 1)] }
}

// x in the low half: the upper half of the sum is the convolution of the two upper half blocks
pub proof fn lemma_cv_split_lo(f: Seq<int>, rf: int, g: Seq<int>, rg: int, t: nat, x: int, n: int)
    requires t <= 15, 0 <= x < p2(t), 0 <= n <= p2(t)
    ensures cv(f, rf, g, rg, x, p2(t) + n) == cv(f, rf, g, rg, x, p2(t)) + cv(f, rf + p2(t), g, rg + p2(t), x, n)
    decreases n
{
    let h = p2(t);
    if n > 0 {
        lemma_cv_split_lo(f, rf, g, rg, t, x, n - 1);
        lemma_xr_split(t, x, n - 1);
        lemma_p2(t);
        assert(rf + (h + n) - 1 == (rf + h) + n - 1);
        assert(rg + xr(x, h + n - 1) == (rg + h) + xr(x, n - 1));
    }
}
// x in the high half, lower half of the sum
pub proof fn lemma_cv_split_hi1(f: Seq<int>, rf: int, g: Seq<int>, rg: int, t: nat, x: int, n: int)
    requires t <= 15, 0 <= x < p2(t), 0 <= n <= p2(t)
    ensures cv(f, rf, g, rg, p2(t) + x, n) == cv(f, rf, g, rg + p2(t), x, n)
    decreases n
{
    if n > 0 {
        lemma_cv_split_hi1(f, rf, g, rg, t, x, n - 1);
        lemma_xr_split(t, x, n - 1);
    }
}
// x in the high half, upper half of the sum
pub proof fn lemma_cv_split_hi2(f: Seq<int>, rf: int, g: Seq<int>, rg: int, t: nat, x: int, n: int)
    requires t <= 15, 0 <= x < p2(t), 0 <= n <= p2(t)
    ensures cv(f, rf, g, rg, p2(t) + x, p2(t) + n) == cv(f, rf, g, rg, p2(t) + x, p2(t)) + cv(f, rf + p2(t), g, rg, x, n)
    decreases n
{
    let h = p2(t);
    if n > 0 {
        lemma_cv_split_hi2(f, rf, g, rg, t, x, n - 1);
        lemma_xr_split(t, x, n - 1);
        lemma_p2(t);
        assert(rf + (h + n) - 1 == (rf + h) + n - 1);
        assert(xr(h + x, h + n - 1) == xr(x, n - 1));
    }
}

// pointwise product of the transforms of two blocks
pub open spec fn prodseq(f: Seq<int>, rf: int, g: Seq<int>, rg: int, t: nat) -> Seq<int> {
    Seq::new(p2(t) as nat, |k: int| ht(f, rf, t, k) * ht(g, rg, t, k))
}

// H(H(f) .* H(g)) == 2^t * (f xor-convolved g)
pub proof fn lemma_conv(f: Seq<int>, rf: int, g: Seq<int>, rg: int, t: nat, x: int)
    requires t <= 16, 0 <= x < p2(t)
    ensures ht(prodseq(f, rf, g, rg, t), 0, t, x) == p2(t) * cv(f, rf, g, rg, x, p2(t))
    decreases t
{
    let p = prodseq(f, rf, g, rg, t);
    if t == 0 {
        assert(p[0] == f[rf] * g[rg]);
        assert(xr(0, 0) == 0) by { assert(0u16 ^ 0u16 == 0u16) by (bit_vector); }
        reveal_with_fuel(cv, 2);
        assert(cv(f, rf, g, rg, 0, 1) == cv(f, rf, g, rg, 0, 0) + f[rf + 1 - 1] * g[rg + xr(0, 0)]);
    } else {
        let s = (t - 1) as nat; let h = p2(s);
        lemma_p2(s);
        assert(p.len() == 2 * h);
        if x < h {
            let sm = Seq::new(h as nat, |k: int| p[k] + p[h + k]);
            let q0 = prodseq(f, rf, g, rg, s); let q1 = prodseq(f, rf + h, g, rg + h, s);
            assert forall|i: int| 0 <= i < 0 + p2(s) implies #[trigger] sm[i] == 1 * p[i - 0 + 0] + 1 * p[i - 0 + h] by { }
            lemma_ht_lin(sm, 0, p, 0, p, h, 1, 1, s, x);
            assert forall|i: int| 0 <= i < 0 + p2(s) implies #[trigger] sm[i] == 2 * q0[i - 0 + 0] + 2 * q1[i - 0 + 0] by {
                let f0 = ht(f, rf, s, i); let f1 = ht(f, rf + h, s, i); let g0 = ht(g, rg, s, i); let g1 = ht(g, rg + h, s, i);
                assert(p[i] == (f0 + f1) * (g0 + g1));
                assert(h + i - h == i);
                assert(p[h + i] == (f0 - f1) * (g0 - g1));
                assert((f0 + f1) * (g0 + g1) + (f0 - f1) * (g0 - g1) == 2 * (f0 * g0) + 2 * (f1 * g1)) by (nonlinear_arith);
            }
            lemma_ht_lin(sm, 0, q0, 0, q1, 0, 2, 2, s, x);
            lemma_conv(f, rf, g, rg, s, x);
            lemma_conv(f, rf + h, g, rg + h, s, x);
            lemma_cv_split_lo(f, rf, g, rg, s, x, h);
            let c0 = cv(f, rf, g, rg, x, h); let c1 = cv(f, rf + h, g, rg + h, x, h);
            assert(ht(p, 0, t, x) == ht(p, 0, s, x) + ht(p, h, s, x));
            assert(ht(sm, 0, s, x) == ht(p, 0, s, x) + ht(p, h, s, x));
            assert(ht(q0, 0, s, x) == h * c0);
            assert(ht(q1, 0, s, x) == h * c1);
            assert(ht(sm, 0, s, x) == 2 * (h * c0) + 2 * (h * c1));
            assert(cv(f, rf, g, rg, x, p2(t)) == c0 + c1);
            assert(2 * (h * c0) + 2 * (h * c1) == (2 * h) * (c0 + c1)) by (nonlinear_arith);
        } else {
            let y = x - h;
            let df = Seq::new(h as nat, |k: int| p[k] - p[h + k]);
            let q0 = prodseq(f, rf, g, rg + h, s); let q1 = prodseq(f, rf + h, g, rg, s);
            assert forall|i: int| 0 <= i < 0 + p2(s) implies #[trigger] df[i] == 1 * p[i - 0 + 0] + (-1) * p[i - 0 + h] by { }
            lemma_ht_lin(df, 0, p, 0, p, h, 1, -1, s, y);
            assert forall|i: int| 0 <= i < 0 + p2(s) implies #[trigger] df[i] == 2 * q0[i - 0 + 0] + 2 * q1[i - 0 + 0] by {
                let f0 = ht(f, rf, s, i); let f1 = ht(f, rf + h, s, i); let g0 = ht(g, rg, s, i); let g1 = ht(g, rg + h, s, i);
                assert(p[i] == (f0 + f1) * (g0 + g1));
                assert(h + i - h == i);
                assert(p[h + i] == (f0 - f1) * (g0 - g1));
                assert((f0 + f1) * (g0 + g1) - (f0 - f1) * (g0 - g1) == 2 * (f0 * g1) + 2 * (f1 * g0)) by (nonlinear_arith);
            }
            lemma_ht_lin(df, 0, q0, 0, q1, 0, 2, 2, s, y);
            lemma_conv(f, rf, g, rg + h, s, y);
            lemma_conv(f, rf + h, g, rg, s, y);
            lemma_cv_split_hi1(f, rf, g, rg, s, y, h);
            lemma_cv_split_hi2(f, rf, g, rg, s, y, h);
            let c0 = cv(f, rf, g, rg + h, y, h); let c1 = cv(f, rf + h, g, rg, y, h);
            assert(ht(p, 0, t, x) == ht(p, 0, s, y) - ht(p, h, s, y));
            assert(ht(df, 0, s, y) == ht(p, 0, s, y) - ht(p, h, s, y));
            assert(ht(q0, 0, s, y) == h * c0);
            assert(ht(q1, 0, s, y) == h * c1);
            assert(ht(df, 0, s, y) == 2 * (h * c0) + 2 * (h * c1));
            assert(h + y == x);
            assert(cv(f, rf, g, rg, x, p2(t)) == c0 + c1);
            assert(2 * (h * c0) + 2 * (h * c1) == (2 * h) * (c0 + c1)) by (nonlinear_arith);
        }
    }
}

// ---------------------------------------------------------------- Part 4: eval_poly_ref

// sum_{j<n} e[j] * lp[x xor j]
pub open spec fn conv_sum(e: Seq<u16>, lp: Seq<u16>, x: int, n: int) -> int
    decreases n
{
    if n <= 0 { 0 } else { conv_sum(e, lp, x, n - 1) + (e[n - 1] as int) * (lp[xr(x, n - 1)] as int) }
}

pub proof fn lemma_xr_range(x: int, j: int)
    ensures 0 <= xr(x, j) < 65536
{ }

pub proof fn lemma_cv_res(e: Seq<u16>, lp: Seq<u16>, x: int, n: int)
    requires e.len() == 65536, lp.len() == 65536, 0 <= n <= 65536
    ensures cv(res_seq(e), 0, res_seq(lp), 0, x, n) % 65535 == conv_sum(e, lp, x, n) % 65535
    decreases n
{
    if n > 0 {
        lemma_cv_res(e, lp, x, n - 1);
        let j = n - 1; let i = xr(x, j);
        let a = e[j] as int; let b = lp[i] as int;
        assert(res_seq(e)[0 + n - 1] == a % 65535);
        assert(res_seq(lp)[0 + i] == b % 65535);
        lemma_mul_mod_noop_general(a, b, 65535);
        let c1 = cv(res_seq(e), 0, res_seq(lp), 0, x, n - 1); let c2 = conv_sum(e, lp, x, n - 1);
        lemma_add_mod_noop(c1, (a % 65535) * (b % 65535), 65535);
        lemma_add_mod_noop(c2, a * b, 65535);
    }
}

// the log table with entry 0 cleared (what LOG_WALSH is the transform of)
pub open spec fn log_prime() -> Seq<u16> { log_table_spec().update(0, 0u16) }

// utils::eval_poly: for every x, the result is (modulo 65535) the sum over j of e[j] * L'[x xor j]
pub proof fn lemma_eval_poly_is_log_sum(e: Seq<u16>, x: int)
    requires e.len() == 65536, 0 <= x < 65536
    ensures res(eval_poly_ref(e)[x]) == conv_sum(e, log_prime(), x, 65536) % 65535
{
    let lp = log_prime();
    let a = wht_ref(e); let lw = log_walsh_spec();
    let pm = Seq::new(65536, |j: int| mul_mod_spec(a[j], lw[j]));
    let fe = res_seq(e); let fl = res_seq(lp);
    let p = prodseq(fe, 0, fl, 0, 16);
    lemma_p2_16();
    assert(eval_poly_ref(e) == wht_ref(pm));
    lemma_wht_ref_ht(pm, x);
    assert forall|i: int| 0 <= i < 0 + p2(16) implies (#[trigger] res_seq(pm)[i]) % 65535 == p[i - 0 + 0] % 65535 by {
        lemma_wht_ref_ht(e, i);
        lemma_wht_ref_ht(lp, i);
        lemma_res_mul(a[i], lw[i]);
        lemma_wht_len(e, 65536); lemma_wht_len(lp, 65536);
        let u = ht(fe, 0, 16, i); let v = ht(fl, 0, 16, i);
        lemma_mul_mod_noop_general(u, v, 65535);
        assert(res_seq(pm)[i] == res(pm[i]));
        lemma_mod_twice(u * v, 65535);
    }
    lemma_ht_cong(res_seq(pm), 0, p, 0, 16, x);
    lemma_conv(fe, 0, fl, 0, 16, x);
    let c = cv(fe, 0, fl, 0, x, 65536);
    // 65536 * c == 65535 * c + c
    lemma_mod_multiples_vanish(c, c, 65535);
    assert(65536 * c == 65535 * c + c);
    lemma_cv_res(e, lp, x, 65536);
}

// ---------------------------------------------------------------- closed form: signed sums (sign = parity of popcount(k & j))

pub open spec fn ibit(x: int, i: int) -> bool { crate::vspec::gf::bit(x as u16, i) }
// (-1)^(number of positions i < t where k and j both have bit i set)
pub open spec fn sgn(t: nat, k: int, j: int) -> int
    decreases t
{
    if t == 0 { 1 } else if ibit(k, t - 1) && ibit(j, t - 1) { -sgn((t - 1) as nat, k, j) } else { sgn((t - 1) as nat, k, j) }
}
// sum_{j<n} sgn(t, k, j) * f[r + j]
pub open spec fn hsum(f: Seq<int>, r: int, t: nat, k: int, n: int) -> int
    decreases n
{
    if n <= 0 { 0 } else { hsum(f, r, t, k, n - 1) + sgn(t, k, n - 1) * f[r + n - 1] }
}

pub proof fn lemma_sgn_pm(t: nat, k: int, j: int)
    ensures sgn(t, k, j) == 1 || sgn(t, k, j) == -1
    decreases t
{
    if t > 0 { lemma_sgn_pm((t - 1) as nat, k, j); }
}
pub proof fn lemma_sgn_agree(t: nat, k: int, k2: int, j: int, j2: int)
    requires forall|i: int| 0 <= i < t ==> ibit(k, i) == ibit(k2, i) && ibit(j, i) == ibit(j2, i)
    ensures sgn(t, k, j) == sgn(t, k2, j2)
    decreases t
{
    if t > 0 { lemma_sgn_agree((t - 1) as nat, k, k2, j, j2); }
}
// bits of k and 2^t + k for k < 2^t
pub proof fn lemma_bits_top(t: nat, k: int)
    requires t <= 15, 0 <= k < p2(t)
    ensures !ibit(k, t as int), ibit(p2(t) + k, t as int), forall|i: int| 0 <= i < t ==> ibit(p2(t) + k, i) == ibit(k, i)
{
    lemma_p2_shl(t);
    let tt = t as u16; let hu = 1u16 << tt; let ku = k as u16;
    assert(hu <= 32768) by (bit_vector) requires hu == 1u16 << tt, tt <= 15;
    assert((p2(t) + k) as u16 == (hu + ku) as u16);
    assert((ku >> tt) & 1 != 1 && ((hu + ku) as u16 >> tt) & 1 == 1) by (bit_vector) requires hu == 1u16 << tt, tt <= 15, ku < hu;
    assert forall|i: int| 0 <= i < t implies ibit(p2(t) + k, i) == ibit(k, i) by {
        let iu = i as u16;
        assert(((hu + ku) as u16 >> iu) & 1 == (ku >> iu) & 1) by (bit_vector) requires hu == 1u16 << tt, tt <= 15, ku < hu, iu < tt;
    }
}
// sign at dimension t+1 in terms of the top bits
pub proof fn lemma_sgn_step(t: nat, k: int, j: int, a: bool, b: bool)
    requires t <= 15, 0 <= k < p2(t), 0 <= j < p2(t)
    ensures sgn(t + 1, if a { p2(t) + k } else { k }, if b { p2(t) + j } else { j }) == (if a && b { -sgn(t, k, j) } else { sgn(t, k, j) })
{
    let kk = if a { p2(t) + k } else { k }; let jj = if b { p2(t) + j } else { j };
    lemma_bits_top(t, k); lemma_bits_top(t, j);
    lemma_sgn_agree(t, kk, k, jj, j);
    assert(sgn(t + 1, kk, jj) == (if ibit(kk, t as int) && ibit(jj, t as int) { -sgn(t, kk, jj) } else { sgn(t, kk, jj) }));
}
// lower half of the sum at dimension t+1
pub proof fn lemma_hsum_lower(f: Seq<int>, r: int, t: nat, k: int, a: bool, n: int)
    requires t <= 15, 0 <= k < p2(t), 0 <= n <= p2(t)
    ensures hsum(f, r, t + 1, if a { p2(t) + k } else { k }, n) == hsum(f, r, t, k, n)
    decreases n
{
    if n > 0 {
        lemma_hsum_lower(f, r, t, k, a, n - 1);
        lemma_sgn_step(t, k, n - 1, a, false);
    }
}
// upper half of the sum at dimension t+1
pub proof fn lemma_hsum_upper(f: Seq<int>, r: int, t: nat, k: int, a: bool, n: int)
    requires t <= 15, 0 <= k < p2(t), 0 <= n <= p2(t)
    ensures ({
        let kk = if a { p2(t) + k } else { k };
        hsum(f, r, t + 1, kk, p2(t) + n) == hsum(f, r, t + 1, kk, p2(t)) + (if a { -hsum(f, r + p2(t), t, k, n) } else { hsum(f, r + p2(t), t, k, n) })
    })
    decreases n
{
    let h = p2(t);
    if n > 0 {
        lemma_hsum_upper(f, r, t, k, a, n - 1);
        lemma_sgn_step(t, k, n - 1, a, true);
        lemma_p2(t);
        let kk = if a { h + k } else { k };
        let v = f[(r + h) + n - 1]; let sg = sgn(t, k, n - 1);
        assert(r + (h + n) - 1 == (r + h) + n - 1);
        assert(hsum(f, r, t + 1, kk, h + n) == hsum(f, r, t + 1, kk, h + n - 1) + sgn(t + 1, kk, h + n - 1) * v);
        assert(sgn(t + 1, kk, h + (n - 1)) == (if a { -sg } else { sg }));
        assert((-sg) * v == -(sg * v)) by (nonlinear_arith);
    }
}
// the block transform is the signed sum over the block
pub proof fn lemma_ht_hsum(f: Seq<int>, r: int, t: nat, k: int)
    requires t <= 16, 0 <= k < p2(t)
    ensures ht(f, r, t, k) == hsum(f, r, t, k, p2(t))
    decreases t
{
    if t == 0 {
        reveal_with_fuel(hsum, 2);
        assert(hsum(f, r, 0, k, 1) == hsum(f, r, 0, k, 0) + sgn(0, k, 0) * f[r + 1 - 1]);
    } else {
        let s = (t - 1) as nat; let h = p2(s);
        lemma_p2(s);
        let a = k >= h; let y = if a { k - h } else { k };
        lemma_ht_hsum(f, r, s, y);
        lemma_ht_hsum(f, r + h, s, y);
        lemma_hsum_lower(f, r, s, y, a, h);
        lemma_hsum_upper(f, r, s, y, a, h);
    }
}

// "wht_ref computes, modulo 65535, the signed sums  sum_j (-1)^popcount(k & j) * s[j]"
pub proof fn lemma_wht_ref_signed_sum(s: Seq<u16>, k: int)
    requires s.len() == 65536, 0 <= k < 65536
    ensures res(wht_ref(s)[k]) == hsum(res_seq(s), 0, 16, k, 65536) % 65535
{
    lemma_p2_16();
    lemma_wht_ref_ht(s, k);
    lemma_ht_hsum(res_seq(s), 0, 16, k);
}

// ---------------------------------------------------------------- application: 0/1 erasure indicator

// sum of LOG[x xor j] over the marked positions j < n other than x
pub open spec fn marked_log_sum(e: Seq<u16>, x: int, n: int) -> int
    decreases n
{
    if n <= 0 { 0 } else {
        marked_log_sum(e, x, n - 1) + (if e[n - 1] != 0 && n - 1 != x { log_table_spec()[xr(x, n - 1)] as int } else { 0 })
    }
}
pub proof fn lemma_conv_sum_marked(e: Seq<u16>, x: int, n: int)
    requires e.len() == 65536, 0 <= x < 65536, 0 <= n <= 65536, forall|j: int| 0 <= j < 65536 ==> e[j] == 0 || e[j] == 1
    ensures conv_sum(e, log_prime(), x, n) == marked_log_sum(e, x, n)
    decreases n
{
    if n > 0 {
        lemma_conv_sum_marked(e, x, n - 1);
        let j = n - 1; let xu = x as u16; let ju = j as u16;
        assert((xu ^ ju == 0) <==> xu == ju) by (bit_vector);
        let i = xr(x, j);
        assert(log_table_spec().len() == 65536);
        if j == x { assert(log_prime()[i] == 0); } else { assert(log_prime()[i] == log_table_spec()[i]); }
        let l = log_prime()[i] as int;
        assert(e[j] == 0 || e[j] == 1);
        assert(0 * l == 0 && 1 * l == l);
    }
}
// eval_poly on a 0/1 indicator: entry x is, modulo 65535, the sum of LOG[x xor j] over the marked j != x,
// i.e. the discrete log of the product of the field elements (x xor j)
pub proof fn lemma_eval_poly_marked(e: Seq<u16>, x: int)
    requires e.len() == 65536, 0 <= x < 65536, forall|j: int| 0 <= j < 65536 ==> e[j] == 0 || e[j] == 1
    ensures res(eval_poly_ref(e)[x]) == marked_log_sum(e, x, 65536) % 65535
{
    lemma_eval_poly_is_log_sum(e, x);
    lemma_conv_sum_marked(e, x, 65536);
}
