use vstd::prelude::*;
use crate::vspec::xform::*;
use crate::vspec::layout::*;
use crate::vspec::envelope::*;
// The codec as a reference algorithm on symbol vectors (one Sv per shard): what rate_high.rs / rate_low.rs
// compute, written with the butterfly networks of vspec::xform and no work memory.

pub open spec fn vv_xor(a: Seq<Sv>, b: Seq<Sv>) -> Seq<Sv> { Seq::new(a.len(), |q: int| v_xor(a[q], b[q])) }
// m shards starting at `start`
pub open spec fn chunk_at(w: Seq<Sv>, m: int, start: int) -> Seq<Sv> { Seq::new(m as nat, |q: int| w[start + q]) }
// the given shards followed by all-zero shards, n in total
pub open spec fn padded(orig: Seq<Sv>, n: int, len: nat) -> Seq<Sv> {
    Seq::new(n as nat, |i: int| if i < orig.len() { orig[i] } else { v_zero(len) })
}
// high rate: XOR over the chunks [0,m), [m,2m), ..., [end-m,end) of IFFT(chunk, skew_delta = chunk end)
pub open spec fn enc_high_acc(w: Seq<Sv>, m: int, end: int, skew: Seq<u16>) -> Seq<Sv>
    decreases end
{
    if end <= m || m <= 0 { ifft_ref(chunk_at(w, m, 0), m, skew) }
    else { vv_xor(enc_high_acc(w, m, end - m, skew), ifft_ref(chunk_at(w, m, end - m), end, skew)) }
}
// recovery symbol vectors of the high-rate code: FFT(skew_delta = 0) of the accumulated chunks, first rc outputs
pub open spec fn enc_high_ref(orig: Seq<Sv>, rc: int, len: nat, skew: Seq<u16>) -> Seq<Sv> {
    let m = np2(rc);
    let wc = ((orig.len() + m - 1) / m) * m;
    fft_ref(enc_high_acc(padded(orig, wc, len), m, wc, skew), 0, skew)
}

pub proof fn lemma_ifft_len(s: Seq<Sv>, dist: int, delta: int, skew: Seq<u16>)
    ensures ifft_upto(s, dist, delta, skew).len() == s.len()
    decreases dist
{
    if dist > 1 { lemma_ifft_len(s, dist / 2, delta, skew); }
}
pub proof fn lemma_enc_high_acc_len(w: Seq<Sv>, m: int, end: int, skew: Seq<u16>)
    requires m >= 1
    ensures enc_high_acc(w, m, end, skew).len() == m
    decreases end
{
    lemma_ifft_len(chunk_at(w, m, 0), m, m, skew);
    if end > m { lemma_enc_high_acc_len(w, m, end - m, skew); }
}
// an all-zero shard has the all-zero symbol vector
pub proof fn lemma_zero_shard(s: Seq<[u8; 64]>)
    requires forall|b: int| 0 <= b < s.len() ==> crate::engine::shards::zero_block(#[trigger] s[b])
    ensures is_zero(sv(s)), sv(s) =~= v_zero((32 * s.len()) as nat)
{
    assert(((0u8 as u16) | ((0u8 as u16) << 8)) == 0u16) by (bit_vector);
    assert forall|k: int| 0 <= k < 32 * s.len() implies #[trigger] sv(s)[k] == 0u16 by {
        assert(crate::engine::shards::zero_block(s[k / 32]));
        assert(s[k / 32]@[k % 32] == 0u8 && s[k / 32]@[k % 32 + 32] == 0u8);
    }
}

// low rate: one IFFT (skew_delta 0) of the zero-padded originals, then for every chunk of m recovery positions
// an FFT with skew_delta = chunk end; recovery j is output j - chunk start of its chunk
pub open spec fn enc_low_c0(orig: Seq<Sv>, len: nat, skew: Seq<u16>) -> Seq<Sv> {
    ifft_ref(padded(orig, np2(orig.len() as int), len), 0, skew)
}
pub open spec fn enc_low_ref(orig: Seq<Sv>, rc: int, len: nat, skew: Seq<u16>) -> Seq<Sv> {
    let m = np2(orig.len() as int);
    let c0 = enc_low_c0(orig, len, skew);
    Seq::new(rc as nat, |j: int| fft_ref(c0, crate::vspec::arith::bstart(j, m) + m, skew)[j - crate::vspec::arith::bstart(j, m)])
}

// ---------------------------------------------------------------- decoder (both rates share one core)
// Work positions [0,a) and [m,e) hold shards (received or not), [a,m) and [e,wc) are padding.
// high rate: a = rc, m = np2(rc), e = m + oc, mid = 1, tail = 0  (originals at [m,e))
// low rate:  a = oc, m = np2(oc), e = m + rc, mid = 0, tail = 1  (originals at [0,a))
pub open spec fn dec_er0(rcv: Set<nat>, a: int, m: int, e: int, mid: u16, tail: u16) -> Seq<u16> {
    Seq::new(65536, |i: int|
        if i < a { if rcv.contains(i as nat) { 0u16 } else { 1u16 } }
        else if i < m { mid }
        else if i < e { if rcv.contains(i as nat) { 0u16 } else { 1u16 } }
        else { tail })
}
pub open spec fn dec_active(rcv: Set<nat>, a: int, m: int, e: int, i: int) -> bool {
    (0 <= i < a || m <= i < e) && rcv.contains(i as nat)
}
// received shards multiplied by the error locator, everything else zero: reads `inp` at received positions only
pub open spec fn dec_w1(inp: Seq<Sv>, rcv: Set<nat>, er: Seq<u16>, a: int, m: int, e: int, len: nat) -> Seq<Sv> {
    Seq::new(inp.len(), |i: int| if dec_active(rcv, a, m, e, i) { v_mul(inp[i], er[i]) } else { v_zero(len) })
}
pub open spec fn dec_er(rcv: Set<nat>, a: int, m: int, e: int, mid: u16, tail: u16) -> Seq<u16> {
    crate::vspec::walsh::eval_poly_ref(dec_er0(rcv, a, m, e, mid, tail))
}
pub open spec fn dec_w4(inp: Seq<Sv>, rcv: Set<nat>, a: int, m: int, e: int, mid: u16, tail: u16, len: nat, skew: Seq<u16>) -> Seq<Sv> {
    let er = dec_er(rcv, a, m, e, mid, tail);
    fft_ref(deriv_ref(ifft_ref(dec_w1(inp, rcv, er, a, m, e, len), 0, skew)), 0, skew)
}
// work position i after "reveal erasures"
pub open spec fn dec_core(inp: Seq<Sv>, rcv: Set<nat>, a: int, m: int, e: int, mid: u16, tail: u16, len: nat, skew: Seq<u16>, i: int) -> Sv {
    v_mul(dec_w4(inp, rcv, a, m, e, mid, tail, len, skew)[i], (65535 - dec_er(rcv, a, m, e, mid, tail)[i]) as u16)
}
// restored original `idx` (not received) of the high-rate / low-rate code
pub open spec fn dec_high_ref(inp: Seq<Sv>, rcv: Set<nat>, oc: int, rc: int, len: nat, skew: Seq<u16>, idx: int) -> Sv {
    let m = np2(rc);
    dec_core(inp, rcv, rc, m, m + oc, 1, 0, len, skew, m + idx)
}
pub open spec fn dec_low_ref(inp: Seq<Sv>, rcv: Set<nat>, oc: int, rc: int, len: nat, skew: Seq<u16>, idx: int) -> Sv {
    let m = np2(oc);
    dec_core(inp, rcv, oc, m, m + rc, 0, 1, len, skew, idx)
}
pub proof fn lemma_fft_len(s: Seq<Sv>, dist: int, delta: int, skew: Seq<u16>)
    ensures fft_from(s, dist, delta, skew).len() == s.len()
    decreases dist
{
    if dist >= 1 { lemma_fft_len(fft_layer(s, dist, delta, skew), dist / 2, delta, skew); }
}

// C05 / C11 at the data level: the decoding function reads `inp` at received positions only, so whatever the
// work memory held elsewhere (earlier rounds, other configurations, shards of a failed call) cannot matter
pub proof fn lemma_dec_reads_received(inp1: Seq<Sv>, inp2: Seq<Sv>, rcv: Set<nat>, a: int, m: int, e: int, mid: u16, tail: u16, len: nat, skew: Seq<u16>, i: int)
    requires inp1.len() == inp2.len(),
        forall|p: int| 0 <= p < inp1.len() && dec_active(rcv, a, m, e, p) ==> inp1[p] == inp2[p]
    ensures dec_core(inp1, rcv, a, m, e, mid, tail, len, skew, i) == dec_core(inp2, rcv, a, m, e, mid, tail, len, skew, i)
{
    let er = dec_er(rcv, a, m, e, mid, tail);
    assert(dec_w1(inp1, rcv, er, a, m, e, len) =~= dec_w1(inp2, rcv, er, a, m, e, len));
}
