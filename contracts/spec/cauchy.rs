use vstd::prelude::*;
use crate::vspec::field::*;
use crate::vspec::arith::*;
use crate::vspec::xform::*;
use crate::vspec::codec::*;
use crate::vspec::linear::*;
use crate::vspec::inverse::*;
use crate::vspec::lch::*;
use crate::vspec::poly::*;
use crate::vspec::lchpoly::*;
use crate::vspec::envelope::{np2, lemma_np2, lemma_np2_pow2, high_env, low_env, lemma_high_env, lemma_low_env};
use crate::vspec::tables::skew_spec;
// C02: the reference encoders are multiplication by the closed-form scaled Cauchy matrix.
//   sm(m, x)  = prod_{v < m} (x ^ v)      vanishing polynomial of the points 0..m-1, evaluated at x
//   wm(m)     = prod_{1 <= v < m} v       (= prod_{v != i, v < m} (i ^ v) for every i < m, m a power of two)
//   high rate (m = np2(recovery_count)):  G[j][i] = sm(m, m + i) / (wm(m) * (j ^ (m + i)))
//   low rate  (m = np2(original_count)):  G[j][i] = sm(m, m + j) / (wm(m) * ((m + j) ^ i))
// and recovery[j][k] = XOR_i G[j][i] * orig[i][k] for every symbol slot k.  Nothing is assumed.
// Route: ifft_ref/fft_ref are interpolation/evaluation in the LCH basis (Theorem B of vspec::lch); an LCH expansion with n
// coefficients is a polynomial of degree < n (vspec::lchpoly), hence equals the Lagrange polynomial through its values at
// the n interpolation points (an aligned coset d ^ [0, m) of the subspace [0, m)); the Lagrange denominators are all wm(m)
// because the derivative of the subspace polynomial is constant.

// ---------------------------------------------------------------- finite XOR sums
pub open spec fn xsum(f: spec_fn(int) -> u16, n: int) -> u16
    decreases n
{
    if n <= 0 { 0u16 } else { xsum(f, n - 1) ^ f(n - 1) }
}
pub proof fn lemma_xsum_ext(f: spec_fn(int) -> u16, g: spec_fn(int) -> u16, n: int)
    requires forall|i: int| 0 <= i < n ==> #[trigger] f(i) == g(i)
    ensures xsum(f, n) == xsum(g, n)
    decreases n
{
    if n > 0 { lemma_xsum_ext(f, g, n - 1); assert(f(n - 1) == g(n - 1)); }
}
// trailing zero terms drop out
pub proof fn lemma_xsum_zero_tail(f: spec_fn(int) -> u16, a: int, b: int)
    requires 0 <= a <= b, forall|i: int| a <= i < b ==> #[trigger] f(i) == 0
    ensures xsum(f, b) == xsum(f, a)
    decreases b
{
    if b > a {
        lemma_xsum_zero_tail(f, a, b - 1);
        assert(f(b - 1) == 0);
        lemma_xor_basic(xsum(f, b - 1), 0, 0);
    }
}
// sum over [0, a + b) = sum over [0, a) ^ sum over [a, a + b)
pub proof fn lemma_xsum_split(f: spec_fn(int) -> u16, g: spec_fn(int) -> u16, a: int, b: int)
    requires 0 <= a, 0 <= b, forall|i: int| 0 <= i < b ==> #[trigger] g(i) == f(a + i)
    ensures xsum(f, a + b) == xsum(f, a) ^ xsum(g, b)
    decreases b
{
    if b > 0 {
        lemma_xsum_split(f, g, a, b - 1);
        assert(g(b - 1) == f(a + (b - 1)));
        let u = xsum(f, a); let v = xsum(g, b - 1); let w = g(b - 1);
        assert((u ^ v) ^ w == u ^ (v ^ w)) by (bit_vector);
    } else {
        lemma_xor_basic(xsum(f, a), 0, 0);
    }
}
// a sum with at most one non-zero term
pub proof fn lemma_xsum_single(f: spec_fn(int) -> u16, n: int, l: int)
    requires 0 <= l, forall|i: int| 0 <= i < n && i != l ==> #[trigger] f(i) == 0
    ensures xsum(f, n) == if l < n { f(l) } else { 0u16 }
    decreases n
{
    if n > 0 {
        lemma_xsum_single(f, n - 1, l);
        if n - 1 != l { assert(f(n - 1) == 0); }
        lemma_xor_basic(xsum(f, n - 1), 0, 0);
        lemma_xor_basic(f(n - 1), 0, 0);
    }
}

// ---------------------------------------------------------------- field helpers
pub proof fn lemma_finv_mul(a: u16, b: u16)
    requires a != 0, b != 0
    ensures fmul(a, b) != 0, finv(fmul(a, b)) == fmul(finv(a), finv(b))
{
    let ab = fmul(a, b);
    let fa = finv(a); let fb = finv(b);
    lemma_fmul_nz(a, b);
    lemma_finv(a); lemma_finv(b); lemma_finv(ab);
    // (fa * fb) * (a * b) == 1
    lemma_fmul_assoc(fa, fb, ab);
    lemma_fmul_assoc(fb, a, b);
    lemma_fmul_comm(fb, a);
    lemma_fmul_assoc(a, fb, b);
    lemma_fmul_one(a);
    assert(fmul(fb, ab) == a);
    lemma_fmul_cancel(finv(ab), fmul(fa, fb), ab);
}
// (a * b) * (c * d) == (c * (b * d)) * a
pub proof fn lemma_fmul4(a: u16, b: u16, c: u16, d: u16)
    ensures fmul(fmul(a, b), fmul(c, d)) == fmul(fmul(c, fmul(b, d)), a)
{
    lemma_fmul_assoc(a, b, fmul(c, d));
    lemma_fmul_assoc(b, c, d);
    lemma_fmul_comm(b, c);
    lemma_fmul_assoc(c, b, d);
    lemma_fmul_comm(a, fmul(c, fmul(b, d)));
}
// e == r * z with z != 0 gives r == e / z
pub proof fn lemma_fdiv(e: u16, r: u16, z: u16)
    requires z != 0, e == fmul(r, z)
    ensures r == fmul(e, finv(z))
{
    lemma_finv(z);
    lemma_fmul_assoc(r, z, finv(z));
    lemma_fmul_one(r);
}

// ---------------------------------------------------------------- Lagrange interpolation through arbitrary distinct points
// denominator of the i-th basis polynomial: prod_{q != i} (pts[i] ^ pts[q])
pub open spec fn lden(pts: Seq<u16>, i: int) -> u16 { eprod(pts.remove(i), pts[i]) }
pub open spec fn lcoef(pts: Seq<u16>, vals: Seq<u16>, i: int) -> u16 { fmul(vals[i], finv(lden(pts, i))) }
// sum over i < n of vals[i] / lden_i * prod_{q != i} (x ^ pts[q])
pub open spec fn lagp(pts: Seq<u16>, vals: Seq<u16>, n: int) -> Seq<u16>
    decreases n
{
    if n <= 0 { pzero() } else { padd(lagp(pts, vals, n - 1), pscale(lcoef(pts, vals, n - 1), proots(pts.remove(n - 1)))) }
}
pub open spec fn lterm(pts: Seq<u16>, vals: Seq<u16>, y: u16, i: int) -> u16 { fmul(lcoef(pts, vals, i), eprod(pts.remove(i), y)) }
pub open spec fn ltermf(pts: Seq<u16>, vals: Seq<u16>, y: u16) -> spec_fn(int) -> u16 { |i: int| lterm(pts, vals, y, i) }

pub proof fn lemma_lagp_deg(pts: Seq<u16>, vals: Seq<u16>, n: int)
    requires n <= pts.len()
    ensures deg_lt(lagp(pts, vals, n), pts.len() as int)
    decreases n
{
    if n > 0 {
        let i = n - 1;
        let len = pts.len() as int;
        lemma_lagp_deg(pts, vals, i);
        lemma_proots_deg(pts.remove(i));
        assert(pts.remove(i).len() == len - 1);
        lemma_deg_pscale(lcoef(pts, vals, i), proots(pts.remove(i)), len);
        lemma_deg_padd(lagp(pts, vals, i), pscale(lcoef(pts, vals, i), proots(pts.remove(i))), len);
    }
}
pub proof fn lemma_lagp_eval(pts: Seq<u16>, vals: Seq<u16>, n: int, y: u16)
    ensures peval(lagp(pts, vals, n), y) == xsum(ltermf(pts, vals, y), n)
    decreases n
{
    if n > 0 {
        let i = n - 1;
        lemma_lagp_eval(pts, vals, i, y);
        let b = proots(pts.remove(i));
        lemma_peval_padd(lagp(pts, vals, i), pscale(lcoef(pts, vals, i), b), y);
        lemma_peval_pscale(lcoef(pts, vals, i), b, y);
        lemma_proots_eval(pts.remove(i), y);
        assert(ltermf(pts, vals, y)(i) == lterm(pts, vals, y, i));
    }
}
pub proof fn lemma_lden_nz(pts: Seq<u16>, i: int)
    requires pts.no_duplicates(), 0 <= i < pts.len()
    ensures lden(pts, i) != 0
{
    let o = pts.remove(i);
    assert forall|q: int| 0 <= q < o.len() implies o[q] != pts[i] by {
        if q < i { assert(o[q] == pts[q]); } else { assert(o[q] == pts[q + 1]); }
    }
    lemma_eprod_nz(o, pts[i]);
}
// the basis polynomials are 1 at their own point and 0 at the others
pub proof fn lemma_lterm_at_point(pts: Seq<u16>, vals: Seq<u16>, l: int, i: int)
    requires pts.no_duplicates(), 0 <= i < pts.len(), 0 <= l < pts.len()
    ensures lterm(pts, vals, pts[l], i) == if i == l { vals[l] } else { 0u16 }
{
    let o = pts.remove(i);
    if i == l {
        lemma_lden_nz(pts, i);
        let d = lden(pts, i);
        lemma_finv(d);
        lemma_fmul_assoc(vals[i], finv(d), d);
        lemma_fmul_one(vals[i]);
    } else {
        let l2 = if l < i { l } else { l - 1 };
        assert(o[l2] == pts[l]);
        lemma_eprod_root(o, l2);
        lemma_fmul_zero(lcoef(pts, vals, i));
    }
}
pub proof fn lemma_lagp_at_point(pts: Seq<u16>, vals: Seq<u16>, l: int)
    requires pts.no_duplicates(), 0 <= l < pts.len()
    ensures peval(lagp(pts, vals, pts.len() as int), pts[l]) == vals[l]
{
    let n = pts.len() as int;
    let f = ltermf(pts, vals, pts[l]);
    lemma_lagp_eval(pts, vals, n, pts[l]);
    assert forall|i: int| 0 <= i < n && i != l implies #[trigger] f(i) == 0 by {
        lemma_lterm_at_point(pts, vals, l, i);
    }
    lemma_xsum_single(f, n, l);
    lemma_lterm_at_point(pts, vals, l, l);
}
// LAGRANGE FORM of an LCH expansion: n coefficients, values vals[i] at n distinct points pts[i]
pub proof fn lemma_lagrange_lch(c: Seq<u16>, pts: Seq<u16>, vals: Seq<u16>, y: u16)
    requires
        c.len() == pts.len(), vals.len() == pts.len(),
        pts.no_duplicates(),
        forall|i: int| 0 <= i < pts.len() ==> eval_lch(c, #[trigger] pts[i]) == vals[i],
    ensures eval_lch(c, y) == xsum(ltermf(pts, vals, y), pts.len() as int)
{
    let n = pts.len() as int;
    let g = lagp(pts, vals, n);
    lemma_lagp_deg(pts, vals, n);
    assert forall|i: int| 0 <= i < pts.len() implies peval(g, #[trigger] pts[i]) == eval_lch(c, pts[i]) by {
        lemma_lagp_at_point(pts, vals, i);
    }
    lemma_lch_interp_any(c, g, pts, y);
    lemma_lagp_eval(pts, vals, n, y);
}
// prod_q (y ^ pts[q]) == prod_{q != i} (y ^ pts[q]) * (y ^ pts[i])
pub proof fn lemma_eprod_remove(pts: Seq<u16>, i: int, y: u16)
    requires 0 <= i < pts.len()
    ensures eprod(pts, y) == fmul(eprod(pts.remove(i), y), y ^ pts[i])
    decreases pts.len()
{
    let rest = pts.drop_last();
    let a = pts.last();
    if i == pts.len() - 1 {
        assert(pts.remove(i) =~= rest);
    } else {
        let o = pts.remove(i);
        assert(o.drop_last() =~= rest.remove(i));
        assert(o.last() == a);
        assert(rest[i] == pts[i]);
        lemma_eprod_remove(rest, i, y);
        let A = eprod(rest.remove(i), y); let B = (y ^ pts[i]) as u16; let C = (y ^ a) as u16;
        // (A * B) * C == (A * C) * B
        lemma_fmul_assoc(A, B, C); lemma_fmul_comm(B, C); lemma_fmul_assoc(A, C, B);
    }
}
// a Lagrange term away from the points, with a known denominator W
pub proof fn lemma_lterm_closed(pts: Seq<u16>, vals: Seq<u16>, y: u16, i: int, W: u16)
    requires 0 <= i < pts.len(), forall|q: int| 0 <= q < pts.len() ==> pts[q] != y, lden(pts, i) == W, W != 0
    ensures
        (y ^ pts[i]) as u16 != 0, fmul(W, y ^ pts[i]) != 0,
        lterm(pts, vals, y, i) == fmul(fmul(eprod(pts, y), finv(fmul(W, y ^ pts[i]))), vals[i])
{
    let E = eprod(pts, y); let R = eprod(pts.remove(i), y);
    let z = (y ^ pts[i]) as u16;
    assert(pts[i] != y);
    lemma_xor_basic(y, pts[i], 0);
    lemma_eprod_remove(pts, i, y);
    lemma_fdiv(E, R, z);
    lemma_finv_mul(W, z);
    lemma_fmul4(vals[i], finv(W), E, finv(z));
}

// ---------------------------------------------------------------- the subspace [0, m), m = 2^t, and its cosets
pub open spec fn sm(m: int, x: u16) -> u16 { eprod(iota(m), x) }
pub open spec fn wm(m: int) -> u16
    decreases m
{
    if m <= 1 { one() } else { fmul(wm(m - 1), (m - 1) as u16) }
}
pub proof fn lemma_p2i_bound(t: nat)
    requires t <= 15
    ensures 1 <= p2i(t) <= 32768, p2(t) as int == p2i(t), 65536int % p2i(t) == 0, is_pow2(p2i(t))
{
    lemma_p2i(t);
    lemma_p2i_mono(t, 15);
    assert(p2i(15) == 32768) by (compute_only);
    lemma_p2i_pow2(t);
    lemma_p2i_pow2(15); lemma_p2i_pow2(16);
    lemma_pow2_divides(p2i(t), p2i(16));
}
pub proof fn lemma_iota_distinct(n: int)
    requires 0 <= n <= 65536
    ensures iota(n).no_duplicates(), iota(n).len() == n
{
}
// sm(m, x) == shat(t, x) * sm(m, 2^t)
pub proof fn lemma_sm_shat(t: nat, x: u16)
    requires t <= 15
    ensures sm(p2i(t), p2(t)) != 0, sm(p2i(t), x) == fmul(shat(t, x), sm(p2i(t), p2(t)))
{
    theorem_shat_product(t, x);
    let K = sm(p2i(t), p2(t)); let E = sm(p2i(t), x);
    lemma_finv(K);
    lemma_fmul_assoc(E, finv(K), K);
    lemma_fmul_one(E);
}
// the vanishing polynomial of the subspace is invariant under translation by subspace elements
pub proof fn lemma_sm_coset(t: nat, x: u16, a: u16)
    requires t <= 15, a < p2(t)
    ensures sm(p2i(t), x ^ a) == sm(p2i(t), x)
{
    lemma_sm_shat(t, x); lemma_sm_shat(t, x ^ a); lemma_shat_coset(t, x, a);
}
// spoly(t) == lc * prod_{v < 2^t} (x ^ v) as polynomials
pub proof fn lemma_spoly_proots(t: nat)
    requires t <= 15
    ensures coef(spoly(t), p2i(t)) != 0, peq(spoly(t), pscale(coef(spoly(t), p2i(t)), proots(iota(p2i(t)))))
{
    lemma_p2i_bound(t);
    let n = p2i(t);
    let pts = iota(n);
    lemma_iota_distinct(n);
    let s = spoly(t);
    let lc = coef(s, n);
    let v = proots(pts);
    let sv = pscale(lc, v);
    let g = padd(s, sv);
    lemma_spoly_deg(t); lemma_spoly_lead(t);
    lemma_proots_deg(pts);
    lemma_deg_pscale(lc, v, n + 1);
    lemma_deg_padd(s, sv, n + 1);
    assert forall|i: int| n <= i implies #[trigger] coef(g, i) == 0 by {
        if i == n {
            lemma_coef_padd(s, sv, n);
            lemma_coef_pscale(lc, v, n);
            lemma_fmul_one(lc);
            lemma_xor_basic(lc, 0, 0);
        }
    }
    assert forall|i: int| 0 <= i < pts.len() implies peval(g, #[trigger] pts[i]) == 0 by {
        let y = pts[i];
        assert(y == i as u16);
        lemma_peval_padd(s, sv, y);
        lemma_peval_pscale(lc, v, y);
        lemma_spoly_eval(t, y);
        lemma_proots_eval(pts, y);
        lemma_shat_kernel(t, y);
        lemma_eprod_root(pts, i);
        lemma_fmul_zero(lc);
        lemma_xor0();
    }
    lemma_root_bound(g, pts);
    assert forall|i: int| coef(s, i) == coef(sv, i) by {
        lemma_coef_padd(s, sv, i);
        assert(coef(g, i) == 0);
        lemma_xor_basic(coef(s, i), coef(sv, i), 0);
    }
}
// ... hence the formal derivative of prod_{v < 2^t} (x ^ v) is a constant (1 / lc)
pub proof fn lemma_vanish_deriv(t: nat, x: u16)
    requires t <= 15
    ensures coef(spoly(t), p2i(t)) != 0, fmul(coef(spoly(t), p2i(t)), peval(pderiv(proots(iota(p2i(t)))), x)) == one()
{
    let n = p2i(t); let s = spoly(t); let lc = coef(s, n); let v = proots(iota(n));
    lemma_spoly_proots(t);
    lemma_peq_pderiv(s, pscale(lc, v));
    lemma_peval_ext(pderiv(s), pderiv(pscale(lc, v)), x);
    lemma_peval_pderiv_pscale(lc, v, x);
    lemma_spoly_deriv(t, x);
}
// all Lagrange denominators of the points 0..2^t-1 coincide: prod_{v != i} (i ^ v) does not depend on i
pub proof fn lemma_lden_iota(t: nat, i: int)
    requires t <= 15, 0 <= i < p2i(t)
    ensures lden(iota(p2i(t)), i) == lden(iota(p2i(t)), 0)
{
    lemma_p2i_bound(t);
    let n = p2i(t); let pts = iota(n);
    let lc = coef(spoly(t), n);
    lemma_vanish_deriv(t, i as u16); lemma_vanish_deriv(t, 0u16);
    lemma_proots_deriv_root(pts, i); lemma_proots_deriv_root(pts, 0);
    assert(pts[i] == i as u16 && pts[0] == 0u16);
    let di = lden(pts, i); let d0 = lden(pts, 0);
    lemma_fmul_comm(lc, di); lemma_fmul_comm(lc, d0);
    lemma_fmul_cancel(di, d0, lc);
}
pub proof fn lemma_wm_eprod(m: int)
    requires 1 <= m <= 65536
    ensures lden(iota(m), 0) == wm(m)
    decreases m
{
    let o = iota(m).remove(0);
    if m == 1 {
        assert(o.len() == 0);
    } else {
        assert(o.drop_last() =~= iota(m - 1).remove(0));
        assert(o.last() == (m - 1) as u16);
        lemma_wm_eprod(m - 1);
        lemma_xor_basic((m - 1) as u16, 0, 0);
        assert(iota(m)[0] == 0u16 && iota(m - 1)[0] == 0u16);
    }
}
// prod_{v != i, v < m} (i ^ v) == wm(m) for every i < m = 2^t
pub proof fn lemma_lden_wm(t: nat, i: int)
    requires t <= 15, 0 <= i < p2i(t)
    ensures lden(iota(p2i(t)), i) == wm(p2i(t)), wm(p2i(t)) != 0
{
    lemma_p2i_bound(t);
    lemma_lden_iota(t, i);
    lemma_wm_eprod(p2i(t));
    lemma_iota_distinct(p2i(t));
    lemma_lden_nz(iota(p2i(t)), 0);
}
// translating the points by d
pub open spec fn xmap(q: Seq<u16>, d: u16) -> Seq<u16> { Seq::new(q.len(), |v: int| q[v] ^ d) }
pub proof fn lemma_eprod_shift(q: Seq<u16>, d: u16, y: u16)
    ensures eprod(xmap(q, d), y) == eprod(q, y ^ d)
    decreases q.len()
{
    if q.len() > 0 {
        let r = q.drop_last();
        assert(xmap(q, d).drop_last() =~= xmap(r, d));
        assert(xmap(q, d).last() == q.last() ^ d);
        lemma_eprod_shift(r, d, y);
        let a = q.last();
        assert(y ^ (a ^ d) == (y ^ d) ^ a) by (bit_vector);
    }
}
pub proof fn lemma_lden_shift(q: Seq<u16>, d: u16, i: int)
    requires 0 <= i < q.len()
    ensures lden(xmap(q, d), i) == lden(q, i)
{
    assert(xmap(q, d).remove(i) =~= xmap(q.remove(i), d));
    lemma_eprod_shift(q.remove(i), d, q[i] ^ d);
    let a = q[i];
    assert((a ^ d) ^ d == a) by (bit_vector);
}
// the aligned coset d + [0, m) = d ^ [0, m)
pub open spec fn coset(d: int, m: int) -> Seq<u16> { Seq::new(m as nat, |v: int| (d + v) as u16) }
pub proof fn lemma_add_xor(d: int, i: int, t: nat)
    requires t <= 15, 0 <= d, d % p2i(t) == 0, d + p2i(t) <= 65536, 0 <= i < p2i(t)
    ensures (i as u16) < p2(t), (d + i) as u16 == (d as u16) ^ (i as u16)
{
    lemma_p2i(t);
    let d32 = d as u32; let i32 = i as u32; let t32 = t as u32; let tt = t as u16;
    assert(d32 % (1u32 << t32) == 0);
    assert((i32 as u16) < (1u16 << tt) && (d32 + i32) as u16 == (d32 as u16) ^ (i32 as u16)) by (bit_vector)
        requires t32 <= 15, tt as u32 == t32, d32 % (1u32 << t32) == 0, d32 + (1u32 << t32) <= 65536, i32 < (1u32 << t32);
}
pub proof fn lemma_xor_lt(a: u16, b: u16, t: nat)
    requires t <= 15, a < p2(t), b < p2(t)
    ensures (a ^ b) < p2(t)
{
    let tt = t as u16;
    assert((a ^ b) < (1u16 << tt)) by (bit_vector) requires tt <= 15, a < (1u16 << tt), b < (1u16 << tt);
}
pub proof fn lemma_coset(t: nat, d: int)
    requires t <= 15, 0 <= d, d % p2i(t) == 0, d + p2i(t) <= 65536
    ensures coset(d, p2i(t)) =~= xmap(iota(p2i(t)), d as u16), coset(d, p2i(t)).no_duplicates(), coset(d, p2i(t)).len() == p2i(t)
{
    lemma_p2i_bound(t);
    let m = p2i(t);
    let c = coset(d, m); let x = xmap(iota(m), d as u16);
    assert forall|v: int| 0 <= v < m implies #[trigger] c[v] == x[v] by {
        lemma_add_xor(d, v, t);
        let a = d as u16; let b = v as u16;
        assert(a ^ b == b ^ a) by (bit_vector);
    }
}

// ---------------------------------------------------------------- Lagrange form on an aligned coset, closed form
// term i: sm(m, y ^ d) / (wm(m) * (y ^ (d + i))) * vals[i]
pub open spec fn cterm(m: int, d: int, vals: Seq<u16>, y: u16, i: int) -> u16 {
    fmul(fmul(sm(m, y ^ (d as u16)), finv(fmul(wm(m), y ^ ((d + i) as u16)))), vals[i])
}
pub open spec fn ctermf(m: int, d: int, vals: Seq<u16>, y: u16) -> spec_fn(int) -> u16 { |i: int| cterm(m, d, vals, y, i) }
// an LCH expansion with m = 2^t coefficients and values vals[i] at the points d + i (d a multiple of m), evaluated at a
// point y outside the coset
pub proof fn lemma_coset_lagrange(c: Seq<u16>, t: nat, d: int, vals: Seq<u16>, y: u16)
    requires t <= 15, c.len() == p2i(t), vals.len() == p2i(t), 0 <= d, d % p2i(t) == 0, d + p2i(t) <= 65536,
        forall|i: int| 0 <= i < p2i(t) ==> eval_lch(c, #[trigger] coset(d, p2i(t))[i]) == vals[i],
        !(d <= y as int && (y as int) < d + p2i(t)),
    ensures eval_lch(c, y) == xsum(ctermf(p2i(t), d, vals, y), p2i(t))
{
    let m = p2i(t); let pts = coset(d, m);
    lemma_p2i_bound(t); lemma_coset(t, d);
    lemma_lagrange_lch(c, pts, vals, y);
    let f = ltermf(pts, vals, y); let g = ctermf(m, d, vals, y);
    assert forall|q: int| 0 <= q < pts.len() implies pts[q] != y by { assert(pts[q] as int == d + q); }
    assert forall|i: int| 0 <= i < m implies #[trigger] f(i) == g(i) by {
        lemma_lden_shift(iota(m), d as u16, i);
        lemma_lden_wm(t, i);
        lemma_lterm_closed(pts, vals, y, i, wm(m));
        lemma_eprod_shift(iota(m), d as u16, y);
        assert(pts[i] == (d + i) as u16);
    }
    lemma_xsum_ext(f, g, m);
}

// ---------------------------------------------------------------- the closed-form matrices
pub open spec fn g_high(m: int, j: int, i: int) -> u16 {
    fmul(sm(m, (m + i) as u16), finv(fmul(wm(m), (j as u16) ^ ((m + i) as u16))))
}
pub open spec fn g_low(m: int, j: int, i: int) -> u16 {
    fmul(sm(m, (m + j) as u16), finv(fmul(wm(m), ((m + j) as u16) ^ (i as u16))))
}
pub open spec fn row_high(m: int, j: int) -> spec_fn(int) -> u16 { |i: int| g_high(m, j, i) }
pub open spec fn row_low(m: int, j: int) -> spec_fn(int) -> u16 { |i: int| g_low(m, j, i) }
// XOR over the original shards i of g(i) * orig[i][k]
pub open spec fn mterm(g: spec_fn(int) -> u16, orig: Seq<Sv>, k: int) -> spec_fn(int) -> u16 { |i: int| fmul(g(i), orig[i][k]) }
pub open spec fn msum(g: spec_fn(int) -> u16, orig: Seq<Sv>, k: int) -> u16 { xsum(mterm(g, orig, k), orig.len() as int) }

pub proof fn lemma_np2_exp(x: int) -> (t: nat)
    requires 0 <= x <= 65536, np2(x) < 65536
    ensures t <= 15, np2(x) == p2i(t), is_pow2(np2(x)), 65536int % np2(x) == 0, np2(x) >= x, np2(x) >= 1
{
    lemma_np2(x); lemma_np2_pow2(x);
    let t = lemma_pow2_exp16(np2(x));
    if t == 16 { lemma_p2i(16); assert((1u32 << 16u32) == 65536u32) by (bit_vector); }
    t
}

// ---------------------------------------------------------------- LOW RATE
pub proof fn theorem_enc_low_cauchy(orig: Seq<Sv>, rc: int, len: nat, j: int, k: int)
    requires 1 <= orig.len(), np2(orig.len() as int) + rc <= 65536, rect(orig, len), 0 <= j < rc, 0 <= k < len
    ensures enc_low_ref(orig, rc, len, skew_spec())[j][k] == msum(row_low(np2(orig.len() as int), j), orig, k)
{
    let oc = orig.len() as int; let m = np2(oc); let skew = skew_spec();
    assert(oc <= 65536) by { reveal(np2); }
    let t = lemma_np2_exp(oc);
    let w = padded(orig, m, len);
    assert(rect(w, len) && w.len() == m);
    let c0 = enc_low_c0(orig, len, skew);
    assert(c0 == ifft_ref(w, 0, skew));
    lemma_mult(1, m); lemma_mult(0, m);
    lemma_ifft_upto_rect(w, m, 0, skew, len);
    let b = bstart(j, m);
    lemma_bstart_le(j, m);
    lemma_mod_add(b, m, m);
    lemma_mult_step(b + m, 65536, m);
    theorem_fft_eval(c0, b + m, len, j - b, k);
    assert(enc_low_ref(orig, rc, len, skew)[j] == fft_ref(c0, b + m, skew)[j - b]);
    let c = column(c0, k); let y = (m + j) as u16;
    assert((b + m) + (j - b) == m + j);
    let vals = column(w, k);
    assert forall|i: int| 0 <= i < m implies eval_lch(c, #[trigger] coset(0, m)[i]) == vals[i] by {
        theorem_ifft_interp(w, 0, len, i, k);
        assert(coset(0, m)[i] == (0 + i) as u16);
    }
    lemma_coset_lagrange(c, t, 0, vals, y);
    let f = ctermf(m, 0, vals, y); let g = mterm(row_low(m, j), orig, k);
    assert forall|i: int| 0 <= i < oc implies #[trigger] f(i) == g(i) by {
        lemma_xor_basic(y, 0, 0);
        assert(vals[i] == w[i][k] && w[i] == orig[i]);
        assert(g(i) == fmul(g_low(m, j, i), orig[i][k]));
        assert(row_low(m, j)(i) == g_low(m, j, i));
    }
    assert forall|i: int| oc <= i < m implies #[trigger] f(i) == 0 by {
        assert(vals[i] == w[i][k] && w[i] == v_zero(len));
        lemma_fmul_zero(fmul(sm(m, y ^ (0 as u16)), finv(fmul(wm(m), y ^ ((0 + i) as u16)))));
    }
    lemma_xsum_zero_tail(f, oc, m);
    lemma_xsum_ext(f, g, oc);
}

// ---------------------------------------------------------------- HIGH RATE
// terms of the shards a, a + 1, ... of the work sequence w
pub open spec fn hterm(m: int, j: int, w: Seq<Sv>, k: int, a: int) -> spec_fn(int) -> u16 {
    |i: int| fmul(g_high(m, j, a + i), w[a + i][k])
}
// the chunk [end - m, end) of the work shards: its IFFT (skew delta = end), evaluated at the point j < m
pub proof fn lemma_high_chunk(w: Seq<Sv>, t: nat, end: int, len: nat, j: int, k: int)
    requires t <= 15, p2i(t) <= end <= w.len(), end % p2i(t) == 0, end + p2i(t) <= 65536, rect(w, len), 0 <= j < p2i(t), 0 <= k < len
    ensures
        eval_lch(column(ifft_ref(chunk_at(w, p2i(t), end - p2i(t)), end, skew_spec()), k), j as u16)
            == xsum(hterm(p2i(t), j, w, k, end - p2i(t)), p2i(t)),
        rect(ifft_ref(chunk_at(w, p2i(t), end - p2i(t)), end, skew_spec()), len),
        ifft_ref(chunk_at(w, p2i(t), end - p2i(t)), end, skew_spec()).len() == p2i(t),
{
    let m = p2i(t); let skew = skew_spec();
    lemma_p2i_bound(t);
    let ch = chunk_at(w, m, end - m);
    assert(rect(ch, len) && ch.len() == m);
    let ci = ifft_ref(ch, end, skew);
    lemma_mult(1, m);
    lemma_ifft_upto_rect(ch, m, end, skew, len);
    let c = column(ci, k); let vals = column(ch, k);
    let y = j as u16;
    assert forall|i: int| 0 <= i < m implies eval_lch(c, #[trigger] coset(end, m)[i]) == vals[i] by {
        theorem_ifft_interp(ch, end, len, i, k);
        assert(coset(end, m)[i] == (end + i) as u16);
    }
    lemma_coset_lagrange(c, t, end, vals, y);
    let f = ctermf(m, end, vals, y); let g = hterm(m, j, w, k, end - m);
    assert forall|i: int| 0 <= i < m implies #[trigger] f(i) == g(i) by {
        lemma_add_xor(end, i, t);
        let e16 = end as u16; let i16 = i as u16;
        lemma_xor_lt(i16, y, t);
        let a = (i16 ^ y) as u16;
        let x = (end + i) as u16;
        lemma_sm_coset(t, x, a);
        assert((e16 ^ i16) ^ (i16 ^ y) == y ^ e16) by (bit_vector);
        assert(sm(m, y ^ e16) == sm(m, x));
        assert(vals[i] == ch[i][k] && ch[i] == w[end - m + i]);
        assert(m + (end - m + i) == end + i);
        assert(g(i) == fmul(g_high(m, j, end - m + i), w[end - m + i][k]));
    }
    lemma_xsum_ext(f, g, m);
}
// the accumulated IFFTs of the chunks [0, m), ..., [end - m, end), evaluated at the point j < m
pub proof fn lemma_high_acc(w: Seq<Sv>, t: nat, end: int, len: nat, j: int, k: int)
    requires t <= 15, p2i(t) <= end <= w.len(), end % p2i(t) == 0, end + p2i(t) <= 65536, rect(w, len), 0 <= j < p2i(t), 0 <= k < len
    ensures
        eval_lch(column(enc_high_acc(w, p2i(t), end, skew_spec()), k), j as u16) == xsum(mterm(row_high(p2i(t), j), w, k), end),
        rect(enc_high_acc(w, p2i(t), end, skew_spec()), len), enc_high_acc(w, p2i(t), end, skew_spec()).len() == p2i(t),
    decreases end
{
    let m = p2i(t); let skew = skew_spec();
    lemma_p2i_bound(t);
    let y = j as u16;
    lemma_high_chunk(w, t, end, len, j, k);
    let F = mterm(row_high(m, j), w, k); let G = hterm(m, j, w, k, end - m);
    assert forall|i: int| 0 <= i < m implies #[trigger] G(i) == F((end - m) + i) by {
        assert(row_high(m, j)(end - m + i) == g_high(m, j, end - m + i));
    }
    lemma_xsum_split(F, G, end - m, m);
    let fc = ifft_ref(chunk_at(w, m, end - m), end, skew);
    if end <= m {
        assert(enc_high_acc(w, m, end, skew) == fc);
        assert(xsum(F, 0) == 0);
        lemma_xor_basic(xsum(G, m), 0, 0);
    } else {
        lemma_mult(1, m); lemma_mult_step(m, end, m);
        lemma_mod_sub(end, m);
        lemma_high_acc(w, t, end - m, len, j, k);
        let A = enc_high_acc(w, m, end - m, skew);
        let acc = enc_high_acc(w, m, end, skew);
        assert(acc == vv_xor(A, fc));
        lemma_vv_xor_rect(A, fc, len);
        let ca = column(A, k); let cb = column(fc, k); let cc = column(acc, k);
        assert forall|q: int| 0 <= q < m implies cc[q] == ca[q] ^ fmul(cb[q], one()) by {
            lemma_fmul_one(cb[q]);
            assert(acc[q] == v_xor(A[q], fc[q]));
            assert(A[q].len() == len && fc[q].len() == len);
        }
        lemma_eval_lin(cc, ca, cb, one(), y, m);
        lemma_fmul_one(eval_upto(cb, y, m));
    }
}
pub proof fn theorem_enc_high_cauchy(orig: Seq<Sv>, rc: int, len: nat, j: int, k: int)
    requires 1 <= orig.len(), 1 <= rc, np2(rc) + orig.len() <= 65536, rect(orig, len), 0 <= j < rc, 0 <= k < len
    ensures enc_high_ref(orig, rc, len, skew_spec())[j][k] == msum(row_high(np2(rc), j), orig, k)
{
    let oc = orig.len() as int; let m = np2(rc); let skew = skew_spec();
    assert(rc <= 65536) by { reveal(np2); }
    let t = lemma_np2_exp(rc);
    let q = (oc + m - 1) / m; let wc = q * m;
    vstd::arithmetic::div_mod::lemma_fundamental_div_mod(oc + m - 1, m);
    vstd::arithmetic::div_mod::lemma_mod_bound(oc + m - 1, m);
    lemma_mult(q, m);
    assert(oc <= wc <= oc + m - 1);
    assert(wc >= m) by {
        if q <= 0 { assert(q * m <= 0) by (nonlinear_arith) requires q <= 0, m >= 1; }
        else { assert(q * m >= m) by (nonlinear_arith) requires q >= 1, m >= 1; }
    }
    lemma_mult_step(wc, 65536, m);
    let w = padded(orig, wc, len);
    assert(rect(w, len) && w.len() == wc);
    let acc = enc_high_acc(w, m, wc, skew);
    lemma_high_acc(w, t, wc, len, j, k);
    lemma_mult(0, m);
    theorem_fft_eval(acc, 0, len, j, k);
    assert(enc_high_ref(orig, rc, len, skew) == fft_ref(acc, 0, skew));
    let F = mterm(row_high(m, j), w, k); let G = mterm(row_high(m, j), orig, k);
    assert forall|i: int| 0 <= i < oc implies #[trigger] F(i) == G(i) by {
        assert(w[i] == orig[i]);
    }
    assert forall|i: int| oc <= i < wc implies #[trigger] F(i) == 0 by {
        assert(w[i] == v_zero(len));
        lemma_fmul_zero(row_high(m, j)(i));
    }
    lemma_xsum_zero_tail(F, oc, wc);
    lemma_xsum_ext(F, G, oc);
}

// ---------------------------------------------------------------- the matrices are well defined and have no zero entry
// (all denominators are non-zero; j < m <= m + i and i < m <= m + j keep the two index sets apart)
pub proof fn lemma_sm_nz(m: int, y: u16)
    requires 0 <= m <= y as int
    ensures sm(m, y) != 0
{
    assert forall|q: int| 0 <= q < iota(m).len() implies iota(m)[q] != y by { assert(iota(m)[q] as int == q); }
    lemma_eprod_nz(iota(m), y);
}
pub proof fn lemma_cauchy_entries(t: nat, j: int, i: int)
    requires t <= 15
    ensures
        wm(p2i(t)) != 0,
        0 <= j < p2i(t) && 0 <= i && p2i(t) + i < 65536 ==>
            (j as u16) ^ ((p2i(t) + i) as u16) != 0 && sm(p2i(t), (p2i(t) + i) as u16) != 0 && g_high(p2i(t), j, i) != 0,
        0 <= i < p2i(t) && 0 <= j && p2i(t) + j < 65536 ==>
            ((p2i(t) + j) as u16) ^ (i as u16) != 0 && sm(p2i(t), (p2i(t) + j) as u16) != 0 && g_low(p2i(t), j, i) != 0,
{
    let m = p2i(t);
    lemma_p2i_bound(t);
    lemma_lden_wm(t, 0);
    if 0 <= j < m && 0 <= i && m + i < 65536 {
        let a = j as u16; let b = (m + i) as u16;
        lemma_xor_basic(a, b, 0);
        lemma_sm_nz(m, b);
        lemma_fmul_nz(wm(m), (a ^ b) as u16);
        lemma_finv(fmul(wm(m), (a ^ b) as u16));
        lemma_fmul_nz(sm(m, b), finv(fmul(wm(m), (a ^ b) as u16)));
    }
    if 0 <= i < m && 0 <= j && m + j < 65536 {
        let a = (m + j) as u16; let b = i as u16;
        lemma_xor_basic(a, b, 0);
        lemma_sm_nz(m, a);
        lemma_fmul_nz(wm(m), (a ^ b) as u16);
        lemma_finv(fmul(wm(m), (a ^ b) as u16));
        lemma_fmul_nz(sm(m, a), finv(fmul(wm(m), (a ^ b) as u16)));
    }
}

// ---------------------------------------------------------------- C02 on the supported envelopes (README form)
pub proof fn theorem_enc_high_cauchy_env(orig: Seq<Sv>, rc: int, len: nat, j: int, k: int)
    requires high_env(orig.len() as int, rc), rect(orig, len), 0 <= j < rc, 0 <= k < len
    ensures enc_high_ref(orig, rc, len, skew_spec())[j][k] == msum(row_high(np2(rc), j), orig, k)
{
    lemma_high_env(orig.len() as int, rc);
    theorem_enc_high_cauchy(orig, rc, len, j, k);
}
pub proof fn theorem_enc_low_cauchy_env(orig: Seq<Sv>, rc: int, len: nat, j: int, k: int)
    requires low_env(orig.len() as int, rc), rect(orig, len), 0 <= j < rc, 0 <= k < len
    ensures enc_low_ref(orig, rc, len, skew_spec())[j][k] == msum(row_low(np2(orig.len() as int), j), orig, k)
{
    lemma_low_env(orig.len() as int, rc);
    theorem_enc_low_cauchy(orig, rc, len, j, k);
}
