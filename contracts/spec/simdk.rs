use vstd::prelude::*;
use crate::engine::tables::*;
use crate::vspec::gf::*;
use crate::vspec::tables::*;
use crate::vprelude::byte_of;
// What the byte-sliced nibble tables compute, stated on the table content alone, and its link to the field.

pub open spec fn w16(lo: u8, hi: u8) -> u16 { (lo as u16) | ((hi as u16) << 8) }

// product read off one Multiply128lutT row: xor of the four nibble entries, low and high byte planes
pub open spec fn lut_lo(e: Multiply128lutT, lo: u8, hi: u8) -> u8 {
    byte_of(e.lo@[0], (lo & 15) as int) ^ byte_of(e.lo@[1], (lo >> 4) as int) ^ byte_of(e.lo@[2], (hi & 15) as int) ^ byte_of(e.lo@[3], (hi >> 4) as int)
}
pub open spec fn lut_hi(e: Multiply128lutT, lo: u8, hi: u8) -> u8 {
    byte_of(e.hi@[0], (lo & 15) as int) ^ byte_of(e.hi@[1], (lo >> 4) as int) ^ byte_of(e.hi@[2], (hi & 15) as int) ^ byte_of(e.hi@[3], (hi >> 4) as int)
}
pub open spec fn row_ok(e: Multiply128lutT, m: u16) -> bool {
    forall|k: int, n: int| 0 <= k < 4 && 0 <= n < 16 ==> #[trigger] m128_entry_ok(e, k, n, m)
}
pub proof fn lemma_rows(t: &Mul128, m: u16)
    requires mul128_rows_ok(t)
    ensures row_ok(t@[m as int], m)
{
    assert forall|k: int, n: int| 0 <= k < 4 && 0 <= n < 16 implies #[trigger] m128_entry_ok(t@[m as int], k, n, m) by {
        assert(m128_entry_ok(t@[m as int], k, n, (m as int) as u16));
    }
}
// a correct row multiplies: the two byte planes recombine to gf_mul_log of the recombined input
pub proof fn lemma_lut_mul(e: Multiply128lutT, m: u16, lo: u8, hi: u8)
    requires row_ok(e, m)
    ensures w16(lut_lo(e, lo, hi), lut_hi(e, lo, hi)) == gf_mul_log(w16(lo, hi), m)
{
    assert((lo & 15) < 16 && (lo >> 4) < 16 && (hi & 15) < 16 && (hi >> 4) < 16) by (bit_vector);
    let n0 = (lo & 15) as int; let n1 = (lo >> 4) as int; let n2 = (hi & 15) as int; let n3 = (hi >> 4) as int;
    assert(m128_entry_ok(e, 0, n0, m)); assert(m128_entry_ok(e, 1, n1, m)); assert(m128_entry_ok(e, 2, n2, m)); assert(m128_entry_ok(e, 3, n3, m));
    let s0 = (((lo & 15) as u16) << 0u16) as u16; let s1 = (((lo >> 4) as u16) << 4u16) as u16;
    let s2 = (((hi & 15) as u16) << 8u16) as u16; let s3 = (((hi >> 4) as u16) << 12u16) as u16;
    assert(s0 == ((n0 as u16) << ((4 * 0) as u16)) as u16 && s1 == ((n1 as u16) << ((4 * 1) as u16)) as u16
        && s2 == ((n2 as u16) << ((4 * 2) as u16)) as u16 && s3 == ((n3 as u16) << ((4 * 3) as u16)) as u16);
    let p0 = gf_mul_log(s0, m); let p1 = gf_mul_log(s1, m); let p2 = gf_mul_log(s2, m); let p3 = gf_mul_log(s3, m);
    assert(w16(lo, hi) == s0 ^ s1 ^ s2 ^ s3) by (bit_vector)
        requires s0 == (((lo & 15) as u16) << 0u16) as u16, s1 == (((lo >> 4) as u16) << 4u16) as u16, s2 == (((hi & 15) as u16) << 8u16) as u16, s3 == (((hi >> 4) as u16) << 12u16) as u16;
    lemma_gf_linear(s0, s1, m); lemma_gf_linear(s0 ^ s1, s2, m); lemma_gf_linear(s0 ^ s1 ^ s2, s3, m);
    assert(((((p0 & 0xff) as u8) ^ ((p1 & 0xff) as u8) ^ ((p2 & 0xff) as u8) ^ ((p3 & 0xff) as u8)) as u16)
        | (((((p0 >> 8) as u8) ^ ((p1 >> 8) as u8) ^ ((p2 >> 8) as u8) ^ ((p3 >> 8) as u8)) as u16) << 8) == p0 ^ p1 ^ p2 ^ p3) by (bit_vector);
}
// the nibble extraction the kernels perform with AND / 64-bit shift / AND
pub proof fn lemma_nibble_ops(v: u8, nxt: u8)
    ensures (v & 0x0f) & 0x80 == 0, (v >> 4) & 0x80 == 0, (v & 0x0f) & 0x0f == v & 15, (v >> 4) & 0x0f == v >> 4,
        ((v >> 4) | ((nxt << 4) as u8)) & 0x0f == v >> 4, ((v >> 4) | 0u8) & 0x0f == v >> 4, (0x0fi8 as u8) == 0x0fu8,
        (v & 15) < 16, (v >> 4) < 16
{
    assert((v & 0x0f) & 0x80 == 0 && (v >> 4) & 0x80 == 0 && (v & 0x0f) & 0x0f == v & 15 && (v >> 4) & 0x0f == v >> 4
        && ((v >> 4) | ((nxt << 4) as u8)) & 0x0f == v >> 4 && ((v >> 4) | 0u8) & 0x0f == v >> 4 && (0x0fi8 as u8) == 0x0fu8
        && (v & 15) < 16 && (v >> 4) < 16) by (bit_vector);
}
