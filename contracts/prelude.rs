// Assumed contracts on std / dependencies and ghost vocabulary shared by all modules.
// Everything in this file is TRUSTED (listed in evidence.trusted_base); each std contract is
// cross-checked against the real std by a Kani harness.
use vstd::prelude::*;
use vstd::std_specs::cmp::OrdSpec;
use std::cmp::Ordering;

pub assume_specification [usize::next_power_of_two] (x: usize) -> (r: usize)
    requires x <= 65536
    ensures r == crate::vspec::envelope::np2(x as int);
pub assume_specification [usize::is_power_of_two] (x: usize) -> (r: bool)
    ensures r == crate::vspec::arith::is_pow2(x as int);
pub open spec fn tz_ok(x: usize, r: u32) -> bool {
    r < 64 && (x >> (r as usize)) & 1 == 1 && x & (((1usize << (r as usize)) - 1) as usize) == 0
}
pub assume_specification [usize::trailing_zeros] (x: usize) -> (r: u32)
    ensures x != 0 ==> tz_ok(x, r);
pub assume_specification [usize::div_ceil] (x: usize, y: usize) -> (r: usize)
    requires y > 0
    ensures r == (x as int + y as int - 1) / (y as int);
pub assume_specification [usize::next_multiple_of] (x: usize, y: usize) -> (r: usize)
    requires y > 0, ((x as int + y as int - 1) / (y as int)) * (y as int) <= usize::MAX
    ensures r == ((x as int + y as int - 1) / (y as int)) * (y as int);
pub assume_specification<T: Ord> [core::cmp::min::<T>] (a: T, b: T) -> (r: T)
    ensures
        a.cmp_spec(&b) == Ordering::Greater ==> r == b,
        a.cmp_spec(&b) != Ordering::Greater ==> r == a;
pub assume_specification<T: Ord> [core::cmp::max::<T>] (a: T, b: T) -> (r: T)
    ensures
        a.cmp_spec(&b) == Ordering::Greater ==> r == a,
        a.cmp_spec(&b) != Ordering::Greater ==> r == b;
pub assume_specification<T, const N: usize> [<[[T; N]]>::as_flattened_mut] (s: &mut [[T; N]]) -> (r: &mut [T])
    ensures
        r@.len() == old(s)@.len() * N,
        final(r)@.len() == r@.len(),
        final(s)@.len() == old(s)@.len(),
        forall|i: int, j: int| 0 <= i < old(s)@.len() && 0 <= j < N ==> r@[i * N + j] == #[trigger] old(s)@[i]@[j],
        forall|i: int, j: int| 0 <= i < old(s)@.len() && 0 <= j < N ==> #[trigger] final(s)@[i]@[j] == final(r)@[i * N + j];
pub assume_specification<T, const N: usize> [<[[T; N]]>::as_flattened] (s: &[[T; N]]) -> (r: &[T])
    ensures
        r@.len() == s@.len() * N,
        forall|i: int, j: int| 0 <= i < s@.len() && 0 <= j < N ==> r@[i * N + j] == #[trigger] s@[i]@[j];
// every instantiation in the crate is a Copy type (u8, u16, [u8; 64]): `clone` of the fill value is the value
pub assume_specification<T: Clone> [<[T]>::fill] (s: &mut [T], v: T)
    ensures final(s)@.len() == old(s)@.len(), forall|i: int| 0 <= i < old(s)@.len() ==> #[trigger] final(s)@[i] == v;
pub assume_specification<T: Default> [core::mem::take::<T>] (d: &mut T) -> (r: T)
    ensures r == *old(d);
pub assume_specification<T, A: std::alloc::Allocator> [<std::vec::Vec<T, A> as std::convert::AsMut<[T]>>::as_mut] (v: &mut std::vec::Vec<T, A>) -> (r: &mut [T])
    ensures r@ == old(v)@, final(v)@ == final(r)@, final(r)@.len() == r@.len();
pub assume_specification<T, A: std::alloc::Allocator> [<std::vec::IntoIter<T, A> as std::iter::Iterator>::count] (it: std::vec::IntoIter<T, A>) -> (r: usize);

pub uninterp spec fn cpu_has_avx2() -> bool;
pub uninterp spec fn cpu_has_ssse3() -> bool;
pub uninterp spec fn cpu_has_neon() -> bool;
#[verifier::external_body] pub fn detect_avx2() -> (r: bool) ensures r == cpu_has_avx2() { unimplemented!() }
#[verifier::external_body] pub fn detect_ssse3() -> (r: bool) ensures r == cpu_has_ssse3() { unimplemented!() }
#[verifier::external_body] pub fn detect_neon() -> (r: bool) ensures r == cpu_has_neon() { unimplemented!() }
// a detection macro for any other feature name: the result says nothing about avx2 / ssse3 / neon
#[verifier::external_body] pub fn detect_other_feature() -> (r: bool) { unimplemented!() }
pub assume_specification [usize::checked_next_power_of_two] (x: usize) -> (r: Option<usize>)
    ensures x <= 65536 ==> r == Some(crate::vspec::envelope::np2(x as int) as usize),
        r is Some ==> r->0 >= x && x <= 0x8000_0000_0000_0000usize,
        x <= 0x8000_0000_0000_0000usize ==> r is Some;

pub mod fixedbitset {
    use vstd::prelude::*;
    #[verifier::external_body]
    pub struct FixedBitSet { _p: Vec<u32> }
    impl FixedBitSet {
        pub uninterp spec fn len_spec(&self) -> nat;
        pub uninterp spec fn bits(&self) -> Set<nat>;
        #[verifier::external_body]
        pub fn new() -> (r: Self) ensures r.len_spec() == 0, r.bits() == Set::<nat>::empty() { unimplemented!() }
        #[verifier::external_body]
        pub fn len(&self) -> (r: usize) ensures r == self.len_spec() { unimplemented!() }
        #[verifier::external_body]
        pub fn clear(&mut self)
            ensures final(self).len_spec() == old(self).len_spec(), final(self).bits() == Set::<nat>::empty()
            opens_invariants none
            no_unwind
        { unimplemented!() }
        #[verifier::external_body]
        pub fn grow(&mut self, bits: usize)
            ensures final(self).bits() == old(self).bits(),
                final(self).len_spec() == if bits > old(self).len_spec() { bits as nat } else { old(self).len_spec() }
        { unimplemented!() }
        #[verifier::external_body]
        pub fn with_capacity(bits: usize) -> (r: Self) ensures r.len_spec() == bits, r.bits() == Set::<nat>::empty() { unimplemented!() }
        #[verifier::external_body]
        pub fn contains(&self, bit: usize) -> (r: bool) ensures r == self.bits().contains(bit as nat) { unimplemented!() }
        #[verifier::external_body]
        pub fn is_clear(&self) -> (r: bool) ensures r == (self.bits() == Set::<nat>::empty()) { unimplemented!() }
        #[verifier::external_body]
        pub fn insert(&mut self, bit: usize)
            requires bit < old(self).len_spec()
            ensures final(self).len_spec() == old(self).len_spec(), final(self).bits() == old(self).bits().insert(bit as nat)
        { unimplemented!() }
        #[verifier::external_body]
        pub fn put(&mut self, bit: usize) -> (r: bool)
            requires bit < old(self).len_spec()
            ensures final(self).len_spec() == old(self).len_spec(), final(self).bits() == old(self).bits().insert(bit as nat),
                r == old(self).bits().contains(bit as nat)
        { unimplemented!() }
        #[verifier::external_body]
        pub fn toggle(&mut self, bit: usize)
            requires bit < old(self).len_spec()
            ensures final(self).len_spec() == old(self).len_spec(),
                final(self).bits() == if old(self).bits().contains(bit as nat) { old(self).bits().remove(bit as nat) } else { old(self).bits().insert(bit as nat) }
        { unimplemented!() }
        #[verifier::external_body]
        pub fn count_ones<T: IndexRange>(&self, range: T) -> (r: usize)
            ensures r == self.bits().filter(|b: nat| range.lo() <= b < range.hi(self.len_spec())).len()
        { unimplemented!() }
        #[verifier::external_body]
        pub fn set_range<T: IndexRange>(&mut self, range: T, enabled: bool)
            requires range.lo() <= range.hi(old(self).len_spec()) <= old(self).len_spec()
            ensures final(self).len_spec() == old(self).len_spec(),
                forall|b: nat| #[trigger] final(self).bits().contains(b) <==>
                    (if range.lo() <= b < range.hi(old(self).len_spec()) { enabled } else { old(self).bits().contains(b) })
        { unimplemented!() }
        #[verifier::external_body]
        pub fn insert_range<T: IndexRange>(&mut self, range: T)
            requires range.lo() <= range.hi(old(self).len_spec()) <= old(self).len_spec()
            ensures final(self).len_spec() == old(self).len_spec(),
                forall|b: nat| #[trigger] final(self).bits().contains(b) <==>
                    (range.lo() <= b < range.hi(old(self).len_spec()) || old(self).bits().contains(b))
        { unimplemented!() }
        #[verifier::external_body]
        pub fn set(&mut self, bit: usize, enabled: bool)
            requires bit < old(self).len_spec()
            ensures final(self).len_spec() == old(self).len_spec(),
                final(self).bits() == if enabled { old(self).bits().insert(bit as nat) } else { old(self).bits().remove(bit as nat) }
        { unimplemented!() }
    }
    // fixedbitset's IndexRange: the four range forms over usize (start defaults to 0, end to the set's length)
    pub trait IndexRange {
        spec fn lo(&self) -> nat;
        spec fn hi(&self, len: nat) -> nat;
    }
    impl IndexRange for std::ops::Range<usize> {
        open spec fn lo(&self) -> nat { self.start as nat }
        open spec fn hi(&self, len: nat) -> nat { self.end as nat }
    }
    impl IndexRange for std::ops::RangeFrom<usize> {
        open spec fn lo(&self) -> nat { self.start as nat }
        open spec fn hi(&self, len: nat) -> nat { len }
    }
    impl IndexRange for std::ops::RangeTo<usize> {
        open spec fn lo(&self) -> nat { 0 }
        open spec fn hi(&self, len: nat) -> nat { self.end as nat }
    }
    impl IndexRange for std::ops::RangeFull {
        open spec fn lo(&self) -> nat { 0 }
        open spec fn hi(&self, len: nat) -> nat { len }
    }
    impl vstd::std_specs::core::IndexSpecImpl<usize> for FixedBitSet {
        open spec fn index_req(&self, index: &usize) -> bool { true }
    }
    impl std::ops::Index<usize> for FixedBitSet {
        type Output = bool;
        #[verifier::external_body]
        fn index(&self, bit: usize) -> (r: &bool) ensures *r == self.bits().contains(bit as nat) { unimplemented!() }
    }
}
// `to_vec` clones each element in order (std: "Copies `self` into a new `Vec`"). assume_specification must be stated at std's
// generic signature, so the element relation is vstd's `cloned` (what `T::clone` ensures, or equality) - sound for every
// `T: Clone`, the same shape vstd gives `Vec::clone`. The crate instantiates it only at `u8`, where vstd's spec of
// `u8::clone` makes `cloned(a, b)` mean `a == b`, i.e. `r@ == s@` (derived in lib.rs::decode, not assumed here).
pub assume_specification<T: Clone> [<[T]>::to_vec] (s: &[T]) -> (r: Vec<T>)
    ensures r@.len() == s@.len(), forall|i: int| 0 <= i < s@.len() ==> vstd::pervasive::cloned::<T>(s@[i], #[trigger] r@[i]);

// C14 vocabulary: which ISA an engine's code is compiled for, and the best one the CPU reports
pub enum Isa { NoSimd, Ssse3, Avx2, Neon }
pub open spec fn best_isa_x86() -> Isa {
    if cpu_has_avx2() { Isa::Avx2 } else if cpu_has_ssse3() { Isa::Ssse3 } else { Isa::NoSimd }
}
// aarch64 view: DefaultEngine takes Neon iff the CPU reports it, NoSimd otherwise
pub open spec fn best_isa_aarch64() -> Isa {
    if cpu_has_neon() { Isa::Neon } else { Isa::NoSimd }
}

// C14 provenance ("which compiled variant produced this value"): `ran_as(isa, v)` is uninterpreted, so nothing can be derived
// about it except from the postcondition of a function that states it. The only source is R23 (tools/extract.py): at the end of
// a function that carries `#[target_feature(enable = "F")]` in /repo's source, and only there, the extractor emits
// `label_entry_point(Isa::F, p@)` for each `&mut` slice/array parameter p - i.e. "this value was left behind by code compiled
// for F" is read off the attribute rustc itself uses to pick the code generator's feature set. Everything else (that the default
// engine's eval_poly hands back a value labelled with the best reported ISA, that the decoders obtain their erasure locator
// from the engine's dispatch and not from a portable routine) is then proved from contracts.
pub uninterp spec fn ran_as<T>(isa: Isa, v: T) -> bool;
#[verifier::external_body]
pub proof fn label_entry_point<T>(isa: Isa, v: T) ensures ran_as(isa, v) {}
// the best ISA the CPU reports, among those the crate knows for the view's architecture
// @arch x86_64
pub mod hostisa {
    use vstd::prelude::*;
    pub open spec fn best_isa() -> super::Isa { super::best_isa_x86() }
    // the feature the 128-bit engine of this view (Ssse3) is compiled for
    pub open spec fn cpu_has_simd128() -> bool { super::cpu_has_ssse3() }
}
// @arch aarch64
pub mod hostisa {
    use vstd::prelude::*;
    pub open spec fn best_isa() -> super::Isa { super::best_isa_aarch64() }
    // the feature the 128-bit engine of this view (Neon) is compiled for
    pub open spec fn cpu_has_simd128() -> bool { super::cpu_has_neon() }
}

// Rust fact (trusted): a mutable slice reference cannot change the slice's length
pub axiom fn axiom_mut_slice_len<T>(r: &mut [T])
    ensures final(r)@.len() == old(r)@.len();

pub assume_specification<T> [<[T] as std::convert::AsRef<[T]>>::as_ref] (s: &[T]) -> (r: &[T])
    ensures r@ == s@;

// Vec<T> -> Box<[T]> keeps the elements
pub assume_specification<T, A: std::alloc::Allocator> [std::vec::Vec::<T, A>::into_boxed_slice] (v: std::vec::Vec<T, A>) -> (r: std::boxed::Box<[T], A>)
    ensures r@ == v@;
pub assume_specification<T, const N: usize> [<Box<[T; N]> as TryFrom<Box<[T]>>>::try_from] (b: Box<[T]>) -> (r: Result<Box<[T; N]>, <Box<[T; N]> as TryFrom<Box<[T]>>>::Error>)
    ensures b@.len() == N ==> (r is Ok && r->Ok_0@ == b@), b@.len() != N ==> r is Err;
// byte n (little endian) of a 128-bit value
pub open spec fn byte_of(v: u128, n: int) -> u8 { ((v >> ((8 * n) as u128)) & 0xff) as u8 }
// R18 stub for u128::from_le_bytes (ASSUMED, = assume_specification)
#[verifier::external_body]
pub fn u128_from_le_bytes(b: [u8; 16]) -> (r: u128)
    ensures forall|n: int| 0 <= n < 16 ==> #[trigger] byte_of(r, n) == b@[n]
{ u128::from_le_bytes(b) }
// R19 stub (ASSUMED, = slice::copy_from_slice through the Box's auto-deref): the array takes the slice's elements
#[verifier::external_body]
pub fn box_array_copy_from_slice<T: Copy, const N: usize>(b: &mut Box<[T; N]>, src: &[T])
    requires src@.len() == N
    ensures final(b)@ == src@
{ b.copy_from_slice(src) }
pub assume_specification<T, const N: usize> [<[T; N] as std::convert::AsRef<[T]>>::as_ref] (a: &[T; N]) -> (r: &[T])
    ensures r@ == a@;

// ---------------------------------------------------------------------------------------------------------------------
// R10 model of the x86 SIMD intrinsics the crate uses (TRUSTED: Intel's documented semantics, byte-wise).
// `__m128i` / `__m256i` are modelled as 16 / 32 bytes in memory order (byte 0 = least significant byte of the register).
// Raw-pointer loads and stores are rewritten by rule R10 into `load*/store*` on the array the pointer was derived from;
// their preconditions are the in-bounds conditions of the original pointer arithmetic.
// @arch x86_64
pub mod simd {
    use vstd::prelude::*;
    pub use crate::vprelude::byte_of;
    #[derive(Clone, Copy)]
    pub struct __m128i { pub b: [u8; 16] }
    #[derive(Clone, Copy)]
    pub struct __m256i { pub b: [u8; 32] }

    // _mm_loadu_si128(p.add(k)) with p = a.as_mut_ptr().cast::<__m128i>()
    #[verifier::external_body]
    pub fn load128(a: &[u8; 64], k: usize) -> (r: __m128i)
        requires k < 4
        ensures forall|n: int| 0 <= n < 16 ==> #[trigger] r.b@[n] == a@[16 * k + n]
    { unimplemented!() }
    #[verifier::external_body]
    pub fn store128(a: &mut [u8; 64], k: usize, v: __m128i)
        requires k < 4
        ensures forall|j: int| 0 <= j < 64 ==> #[trigger] final(a)@[j] == (if 16 * k <= j < 16 * k + 16 { v.b@[j - 16 * k] } else { old(a)@[j] })
    { unimplemented!() }
    #[verifier::external_body]
    pub fn load256(a: &[u8; 64], k: usize) -> (r: __m256i)
        requires super::cpu_has_avx2(), k < 2
        ensures forall|n: int| 0 <= n < 32 ==> #[trigger] r.b@[n] == a@[32 * k + n]
    { unimplemented!() }
    #[verifier::external_body]
    pub fn store256(a: &mut [u8; 64], k: usize, v: __m256i)
        requires super::cpu_has_avx2(), k < 2
        ensures forall|j: int| 0 <= j < 64 ==> #[trigger] final(a)@[j] == (if 32 * k <= j < 32 * k + 32 { v.b@[j - 32 * k] } else { old(a)@[j] })
    { unimplemented!() }
    // the aligned forms of the four accesses (`_mm_load_si128`, `_mm_store_si128`, `_mm256_load_si256`, `_mm256_store_si256`):
    // same data movement, plus the hardware's alignment demand on the address (a general-protection fault otherwise).
    // `ptr_aligned` is uninterpreted: a `[u8; 64]` has alignment 1 and the public `ShardsRefMut::new` accepts any buffer, so a
    // kernel that uses them fails this precondition (C03: safe for every caller buffer).
    pub uninterp spec fn ptr_aligned(a: &[u8; 64], n: nat) -> bool;
    #[verifier::external_body]
    pub fn load128_aligned(a: &[u8; 64], k: usize) -> (r: __m128i)
        requires k < 4, ptr_aligned(a, 16)
        ensures forall|n: int| 0 <= n < 16 ==> #[trigger] r.b@[n] == a@[16 * k + n]
    { unimplemented!() }
    #[verifier::external_body]
    pub fn store128_aligned(a: &mut [u8; 64], k: usize, v: __m128i)
        requires k < 4, ptr_aligned(&*old(a), 16)
        ensures forall|j: int| 0 <= j < 64 ==> #[trigger] final(a)@[j] == (if 16 * k <= j < 16 * k + 16 { v.b@[j - 16 * k] } else { old(a)@[j] })
    { unimplemented!() }
    #[verifier::external_body]
    pub fn load256_aligned(a: &[u8; 64], k: usize) -> (r: __m256i)
        requires super::cpu_has_avx2(), k < 2, ptr_aligned(a, 32)
        ensures forall|n: int| 0 <= n < 32 ==> #[trigger] r.b@[n] == a@[32 * k + n]
    { unimplemented!() }
    #[verifier::external_body]
    pub fn store256_aligned(a: &mut [u8; 64], k: usize, v: __m256i)
        requires super::cpu_has_avx2(), k < 2, ptr_aligned(&*old(a), 32)
        ensures forall|j: int| 0 <= j < 64 ==> #[trigger] final(a)@[j] == (if 32 * k <= j < 32 * k + 32 { v.b@[j - 32 * k] } else { old(a)@[j] })
    { unimplemented!() }
    // _mm_loadu_si128(std::ptr::from_ref::<u128>(p).cast::<__m128i>()): the 16 bytes of a u128 on a little-endian machine
    #[verifier::external_body]
    pub fn load128_u128(p: &u128) -> (r: __m128i)
        ensures forall|n: int| 0 <= n < 16 ==> #[trigger] r.b@[n] == byte_of(*p, n)
    { unimplemented!() }

    #[verifier::external_body]
    pub fn _mm_set1_epi8(a: i8) -> (r: __m128i)
        ensures forall|n: int| 0 <= n < 16 ==> #[trigger] r.b@[n] == a as u8
    { unimplemented!() }
    #[verifier::external_body]
    pub fn _mm_and_si128(a: __m128i, b: __m128i) -> (r: __m128i)
        ensures forall|n: int| 0 <= n < 16 ==> #[trigger] r.b@[n] == a.b@[n] & b.b@[n]
    { unimplemented!() }
    #[verifier::external_body]
    pub fn _mm_xor_si128(a: __m128i, b: __m128i) -> (r: __m128i)
        ensures forall|n: int| 0 <= n < 16 ==> #[trigger] r.b@[n] == a.b@[n] ^ b.b@[n]
    { unimplemented!() }
    // logical right shift of each 64-bit lane; specified for the one shift count the crate uses
    #[verifier::external_body]
    pub fn _mm_srli_epi64(a: __m128i, imm8: i32) -> (r: __m128i)
        requires imm8 == 4
        ensures forall|n: int| 0 <= n < 16 ==> #[trigger] r.b@[n] == (a.b@[n] >> 4) | (if n % 8 < 7 { (a.b@[n + 1] << 4) as u8 } else { 0u8 })
    { unimplemented!() }
    // PSHUFB
    #[verifier::external_body]
    pub fn _mm_shuffle_epi8(a: __m128i, b: __m128i) -> (r: __m128i)
        requires super::cpu_has_ssse3()
        ensures forall|n: int| 0 <= n < 16 ==> #[trigger] r.b@[n] == if b.b@[n] & 0x80 != 0 { 0u8 } else { a.b@[(b.b@[n] & 0x0f) as int] }
    { unimplemented!() }

    #[verifier::external_body]
    pub fn _mm_or_si128(a: __m128i, b: __m128i) -> (r: __m128i)
        ensures forall|n: int| 0 <= n < 16 ==> #[trigger] r.b@[n] == a.b@[n] | b.b@[n]
    { unimplemented!() }
    #[verifier::external_body]
    pub fn _mm_andnot_si128(a: __m128i, b: __m128i) -> (r: __m128i)
        ensures forall|n: int| 0 <= n < 16 ==> #[trigger] r.b@[n] == (!a.b@[n]) & b.b@[n]
    { unimplemented!() }
    #[verifier::external_body]
    pub fn _mm_setzero_si128() -> (r: __m128i)
        ensures forall|n: int| 0 <= n < 16 ==> #[trigger] r.b@[n] == 0u8
    { unimplemented!() }
    // PTEST: 1 iff (a AND b) is all zero
    #[verifier::external_body]
    pub fn _mm_testz_si128(a: __m128i, b: __m128i) -> (r: i32)
        ensures (r == 1) == (forall|n: int| 0 <= n < 16 ==> #[trigger] a.b@[n] & b.b@[n] == 0u8), r == 0 || r == 1
    { unimplemented!() }
    #[verifier::external_body]
    pub fn _mm256_or_si256(a: __m256i, b: __m256i) -> (r: __m256i)
        requires super::cpu_has_avx2()
        ensures forall|n: int| 0 <= n < 32 ==> #[trigger] r.b@[n] == a.b@[n] | b.b@[n]
    { unimplemented!() }
    #[verifier::external_body]
    pub fn _mm256_andnot_si256(a: __m256i, b: __m256i) -> (r: __m256i)
        requires super::cpu_has_avx2()
        ensures forall|n: int| 0 <= n < 32 ==> #[trigger] r.b@[n] == (!a.b@[n]) & b.b@[n]
    { unimplemented!() }
    #[verifier::external_body]
    pub fn _mm256_setzero_si256() -> (r: __m256i)
        requires super::cpu_has_avx2()
        ensures forall|n: int| 0 <= n < 32 ==> #[trigger] r.b@[n] == 0u8
    { unimplemented!() }
    #[verifier::external_body]
    pub fn _mm256_testz_si256(a: __m256i, b: __m256i) -> (r: i32)
        requires super::cpu_has_avx2()
        ensures (r == 1) == (forall|n: int| 0 <= n < 32 ==> #[trigger] a.b@[n] & b.b@[n] == 0u8), r == 0 || r == 1
    { unimplemented!() }
    #[verifier::external_body]
    // no CPU precondition: its one use is in `impl From<&Multiply128lutT> for LutAvx2`, a trait impl, where none can be stated
    pub fn _mm256_broadcastsi128_si256(a: __m128i) -> (r: __m256i)
        ensures forall|n: int| 0 <= n < 32 ==> #[trigger] r.b@[n] == a.b@[n % 16]
    { unimplemented!() }
    #[verifier::external_body]
    pub fn _mm256_set1_epi8(a: i8) -> (r: __m256i)
        requires super::cpu_has_avx2()
        ensures forall|n: int| 0 <= n < 32 ==> #[trigger] r.b@[n] == a as u8
    { unimplemented!() }
    #[verifier::external_body]
    pub fn _mm256_and_si256(a: __m256i, b: __m256i) -> (r: __m256i)
        requires super::cpu_has_avx2()
        ensures forall|n: int| 0 <= n < 32 ==> #[trigger] r.b@[n] == a.b@[n] & b.b@[n]
    { unimplemented!() }
    #[verifier::external_body]
    pub fn _mm256_xor_si256(a: __m256i, b: __m256i) -> (r: __m256i)
        requires super::cpu_has_avx2()
        ensures forall|n: int| 0 <= n < 32 ==> #[trigger] r.b@[n] == a.b@[n] ^ b.b@[n]
    { unimplemented!() }
    #[verifier::external_body]
    pub fn _mm256_srli_epi64(a: __m256i, imm8: i32) -> (r: __m256i)
        requires super::cpu_has_avx2(), imm8 == 4
        ensures forall|n: int| 0 <= n < 32 ==> #[trigger] r.b@[n] == (a.b@[n] >> 4) | (if n % 8 < 7 { (a.b@[n + 1] << 4) as u8 } else { 0u8 })
    { unimplemented!() }
    // VPSHUFB: two independent 128-bit lanes
    #[verifier::external_body]
    pub fn _mm256_shuffle_epi8(a: __m256i, b: __m256i) -> (r: __m256i)
        requires super::cpu_has_avx2()
        ensures forall|n: int| 0 <= n < 32 ==> #[trigger] r.b@[n] == if b.b@[n] & 0x80 != 0 { 0u8 } else { a.b@[(n / 16) * 16 + (b.b@[n] & 0x0f) as int] }
    { unimplemented!() }
}

// ---------------------------------------------------------------------------------------------------------------------
// R10 model of the seven aarch64 Neon intrinsics the crate uses (TRUSTED: ARM's documented semantics, byte-wise).
// `uint8x16_t` is modelled as its 16 lanes in memory order (lane n = byte n of what `vld1q_u8` reads / `vst1q_u8` writes).
// `vld1q_u8(p.add(off))` / `vst1q_u8(p.add(off), v)` with `p: *mut u8 = a.as_mut_ptr()` are rewritten by rule R10 into
// `nload(a, off)` / `nstore(a, off, v)` on the array the pointer was derived from; `off` is the BYTE offset of the original
// pointer arithmetic and the precondition is its in-bounds condition (16 bytes starting at `off` lie inside the 64).
// @arch aarch64
pub mod neon {
    use vstd::prelude::*;
    pub use crate::vprelude::byte_of;
    #[derive(Clone, Copy)]
    pub struct uint8x16_t { pub b: [u8; 16] }

    // vld1q_u8(p.add(off)) with p = a.as_mut_ptr()
    #[verifier::external_body]
    pub fn nload(a: &[u8; 64], off: usize) -> (r: uint8x16_t)
        requires super::cpu_has_neon(), off + 16 <= 64
        ensures forall|n: int| 0 <= n < 16 ==> #[trigger] r.b@[n] == a@[off + n]
    { unimplemented!() }
    // vst1q_u8(p.add(off), v) with p = a.as_mut_ptr()
    #[verifier::external_body]
    pub fn nstore(a: &mut [u8; 64], off: usize, v: uint8x16_t)
        requires super::cpu_has_neon(), off + 16 <= 64
        ensures forall|j: int| 0 <= j < 64 ==> #[trigger] final(a)@[j] == (if off <= j < off + 16 { v.b@[j - off] } else { old(a)@[j] })
    { unimplemented!() }
    // vld1q_u8(std::ptr::from_ref::<u128>(p).cast::<u8>()): the 16 bytes of a u128 on a little-endian machine
    #[verifier::external_body]
    pub fn nload_u128(p: &u128) -> (r: uint8x16_t)
        requires super::cpu_has_neon()
        ensures forall|n: int| 0 <= n < 16 ==> #[trigger] r.b@[n] == byte_of(*p, n)
    { unimplemented!() }

    // DUP: every lane = the scalar
    #[verifier::external_body]
    pub fn vdupq_n_u8(value: u8) -> (r: uint8x16_t)
        requires super::cpu_has_neon()
        ensures forall|n: int| 0 <= n < 16 ==> #[trigger] r.b@[n] == value
    { unimplemented!() }
    #[verifier::external_body]
    pub fn vandq_u8(a: uint8x16_t, b: uint8x16_t) -> (r: uint8x16_t)
        requires super::cpu_has_neon()
        ensures forall|n: int| 0 <= n < 16 ==> #[trigger] r.b@[n] == a.b@[n] & b.b@[n]
    { unimplemented!() }
    #[verifier::external_body]
    pub fn veorq_u8(a: uint8x16_t, b: uint8x16_t) -> (r: uint8x16_t)
        requires super::cpu_has_neon()
        ensures forall|n: int| 0 <= n < 16 ==> #[trigger] r.b@[n] == a.b@[n] ^ b.b@[n]
    { unimplemented!() }
    // USHR: logical right shift of each 8-bit lane (no bits cross lanes); specified for the one shift count the crate uses.
    // (std's signature is `vshrq_n_u8::<const N: i32>(a)` called through the legacy const-argument form `vshrq_n_u8(a, 4)`;
    //  the model takes the count as an ordinary argument.)
    #[verifier::external_body]
    pub fn vshrq_n_u8(a: uint8x16_t, n_: i32) -> (r: uint8x16_t)
        requires super::cpu_has_neon(), n_ == 4
        ensures forall|n: int| 0 <= n < 16 ==> #[trigger] r.b@[n] == a.b@[n] >> 4
    { unimplemented!() }
    // TBL (one table register): lane n = t[idx[n]] if idx[n] < 16, else 0
    #[verifier::external_body]
    pub fn vqtbl1q_u8(t: uint8x16_t, idx: uint8x16_t) -> (r: uint8x16_t)
        requires super::cpu_has_neon()
        ensures forall|n: int| 0 <= n < 16 ==> #[trigger] r.b@[n] == if idx.b@[n] < 16 { t.b@[idx.b@[n] as int] } else { 0u8 }
    { unimplemented!() }
}
