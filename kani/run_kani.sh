#!/bin/bash
# usage: run_kani.sh <repo> <workdir> <harness> [timeout_s]
# copies <repo> to <workdir>/kani_copy, appends the harness module, runs one harness; prints RESULT line
set -u
REPO=$1; WORK=$2; H=$3; TO=${4:-600}
HERE="$(cd "$(dirname "$0")" && pwd)"
C="$WORK/kani_copy"
mkdir -p "$C"
rsync -a --delete --exclude target --exclude .git "$REPO"/ "$C"/ || exit 2
cp "$HERE/harness.rs" "$C/src/verif_kani.rs"
grep -q "mod verif_kani" "$C/src/lib.rs" || printf '\n#[cfg(kani)]\nmod verif_kani;\n' >> "$C/src/lib.rs"
cd "$C" || exit 2
OUT="$WORK/kani_$H.log"
CARGO_NET_OFFLINE=true timeout "$TO" cargo kani --harness "$H" > "$OUT" 2>&1
RC=$?
if grep -q "VERIFICATION:- SUCCESSFUL" "$OUT"; then echo "RESULT $H SUCCESSFUL $(grep -o 'Verification Time: [0-9.]*s' "$OUT" | tail -1)"; exit 0; fi
# a verdict needs a named failed check; "CBMC failed" / out of memory / solver crash is not one
# (an unwinding assertion is a statement about the harness bound, not about the code: undecided)
if grep -q "VERIFICATION:- FAILED" "$OUT" && grep "^Failed Checks:" "$OUT" | grep -qv "unwinding assertion" && ! grep -qi "out of memory\|CBMC failed" "$OUT"; then echo "RESULT $H FAILED $(grep -A2 'Failed Checks' "$OUT" | tr '\n' ' ' | head -c 300)"; exit 1; fi
echo "RESULT $H UNDECIDED rc=$RC $(tail -3 "$OUT" | tr '\n' ' ' | head -c 300)"; exit 2
