//! Kani harnesses, compiled *inside* a scratch copy of the crate (appended as `#[cfg(kani)] mod verif_kani;`),
//! so that crate-private functions are reachable. Nothing here is compiled in a normal build.
//!
//! complete  = loop-free or fully unwound over the full input domain (a proof for that function)
//! bounded   = fixed tiny configuration; labelled bounded in the evidence, never counted as proved
#![allow(dead_code, unused_imports)]
use crate::engine::{self, Engine, GfElement, ShardsRefMut, GF_ORDER};
use crate::rate::*;
use crate::*;

/// An engine that does nothing: every bookkeeping path of the codecs is the real code,
/// the (table-driven, CBMC-infeasible) transforms are cut off at the public `Engine` trait.
pub struct Dummy;
impl Engine for Dummy {
    fn fft(&self, _d: &mut ShardsRefMut, _p: usize, _s: usize, _t: usize, _k: usize) {}
    fn ifft(&self, _d: &mut ShardsRefMut, _p: usize, _s: usize, _t: usize, _k: usize) {}
    fn mul(&self, _x: &mut [[u8; 64]], _m: GfElement) {}
    fn eval_poly(_e: &mut [GfElement; GF_ORDER], _t: usize) {}
}

// ---------------------------------------------------------------- C08: envelope (complete)

/// README table, transcribed independently of the crate's formula.
fn envelope(o: usize, r: usize) -> bool {
    if o < 1 || r < 1 { return false; }
    let mut n = 0;
    while n <= 16 {
        let p: usize = 1 << n;
        if (o <= p && r <= 65536 - p) || (r <= p && o <= 65536 - p) { return true; }
        n += 1;
    }
    false
}
fn high_envelope(o: usize, r: usize) -> bool {
    if o < 1 || r < 1 { return false; }
    let mut n = 0;
    while n <= 16 { let p: usize = 1 << n; if r <= p && o <= 65536 - p { return true; } n += 1; }
    false
}
fn low_envelope(o: usize, r: usize) -> bool { high_envelope(r, o) }

#[kani::proof]
#[kani::unwind(18)]
fn c08_default_supports_is_envelope() {
    let o: usize = kani::any(); let r: usize = kani::any();
    assert!(DefaultRate::<Dummy>::supports(o, r) == envelope(o, r));
    assert!(ReedSolomonEncoder::supports(o, r) == envelope(o, r));
    assert!(ReedSolomonDecoder::supports(o, r) == envelope(o, r));
}
#[kani::proof]
#[kani::unwind(18)]
fn c08_high_low_supports() {
    let o: usize = kani::any(); let r: usize = kani::any();
    assert!(HighRate::<Dummy>::supports(o, r) == high_envelope(o, r));
    assert!(LowRate::<Dummy>::supports(o, r) == low_envelope(o, r));
    // the default envelope is exactly the union
    assert!(envelope(o, r) == (high_envelope(o, r) || low_envelope(o, r)));
}
#[kani::proof]
#[kani::unwind(18)]
fn c08_validate_agrees() {
    let o: usize = kani::any(); let r: usize = kani::any(); let sb: usize = kani::any();
    let v = DefaultRate::<Dummy>::validate(o, r, sb);
    let ok = envelope(o, r) && sb != 0 && sb % 2 == 0;
    assert!(v.is_ok() == ok);
    if !envelope(o, r) { assert!(v == Err(Error::UnsupportedShardCount { original_count: o, recovery_count: r })); }
    else if !ok { assert!(v == Err(Error::InvalidShardSize { shard_bytes: sb })); }
}

// ---------------------------------------------------------------- assumed std contracts (complete, loop-free)

#[kani::proof]
fn std_next_power_of_two() {
    let x: usize = kani::any();
    kani::assume(x <= 65536);
    let p = x.next_power_of_two();
    assert!(p.is_power_of_two() && p >= x && (x <= 1 || p / 2 < x) && (x > 1 || p == 1));
}
#[kani::proof]
fn std_div_ceil_next_multiple_of() {
    // the two call shapes of the crate: div_ceil(64) on a shard size, next_multiple_of(2^k) on a count
    let x: usize = kani::any();
    kani::assume(x <= (1usize << 62));
    assert!(x.div_ceil(64) == (x + 63) / 64);
    let c: usize = kani::any(); let k: u32 = kani::any();
    kani::assume(c <= 65536 && k <= 15);
    let y = 1usize << k;
    assert!(c.next_multiple_of(y) == ((c + y - 1) / y) * y);
}
#[kani::proof]
fn std_trailing_zeros() {
    let x: usize = kani::any();
    kani::assume(x != 0 && x <= 65536);
    let t = x.trailing_zeros();
    assert!(t < 64 && (x >> t) & 1 == 1 && (x & ((1usize << t) - 1)) == 0);
}

// ---------------------------------------------------------------- C15: mod-65535 arithmetic (complete, all 2^32 pairs)

#[kani::proof]
fn c15_add_mod() {
    let x: u16 = kani::any(); let y: u16 = kani::any();
    let r = engine::utils::add_mod(x, y);
    let s = x as u32 + y as u32;
    // residue is right, and the representation is the documented one (0 and 65535 both mean 0)
    assert!((r as u32) % 65535 == s % 65535);
    assert!(r as u32 == if s >= 65536 { s - 65535 } else { s });
}
#[kani::proof]
fn c15_sub_mod() {
    let x: u16 = kani::any(); let y: u16 = kani::any();
    let r = engine::utils::sub_mod(x, y);
    assert!(((r as u32) + (y as u32)) % 65535 == (x as u32) % 65535);
    assert!(r as u32 == if x >= y { (x - y) as u32 } else { x as u32 + 65535 - y as u32 });
}

// ---------------------------------------------------------------- C06 / C07 / C12: API on a dummy engine
// bounded: configuration fixed and tiny; complete over the symbolic argument (index / size up to usize::MAX)

#[kani::proof]
#[kani::unwind(10)]
fn c06_add_original_any_index_high() {
    let mut d = HighRateDecoder::new(3, 2, 2, Dummy, None).unwrap();
    let idx: usize = kani::any();
    let r = d.add_original_shard(idx, [0u8; 2]);
    if idx >= 3 { assert!(r == Err(Error::InvalidOriginalShardIndex { original_count: 3, index: idx })); } else { assert!(r.is_ok()); }
}
#[kani::proof]
#[kani::unwind(10)]
fn c06_add_recovery_any_index_low() {
    let mut d = LowRateDecoder::new(2, 3, 2, Dummy, None).unwrap();
    let idx: usize = kani::any();
    let r = d.add_recovery_shard(idx, [0u8; 2]);
    if idx >= 3 { assert!(r == Err(Error::InvalidRecoveryShardIndex { recovery_count: 3, index: idx })); } else { assert!(r.is_ok()); }
}
#[kani::proof]
#[kani::unwind(10)]
fn c07_default_encoder_failed_reset_keeps_object() {
    let mut e = DefaultRateEncoder::new(2, 1, 2, Dummy, None).unwrap();
    e.add_original_shard([7u8; 2]).unwrap();
    // supported counts (same and switched rate) and unsupported ones, every small shard size
    let sb: usize = kani::any(); kani::assume(sb < 6);
    let which: u8 = kani::any();
    let (o, r) = if which == 0 { (2, 1) } else if which == 1 { (1, 2) } else { (0, 1) };
    let res = e.reset(o, r, sb);
    if res.is_err() {
        // exactly as if the call had not been made: one shard already added, one more completes the round
        assert!(e.add_original_shard([8u8; 2]).is_ok());
        assert!(e.add_original_shard([9u8; 2]) == Err(Error::TooManyOriginalShards { original_count: 2 }));
    }
}
#[kani::proof]
#[kani::unwind(10)]
fn c07_default_decoder_failed_reset_keeps_object() {
    let mut d = DefaultRateDecoder::new(2, 1, 2, Dummy, None).unwrap();
    d.add_original_shard(1, [7u8; 2]).unwrap();
    let sb: usize = kani::any(); kani::assume(sb < 6);
    let which: u8 = kani::any();
    let (o, r) = if which == 0 { (2, 1) } else if which == 1 { (1, 2) } else { (0, 1) };
    let res = d.reset(o, r, sb);
    if res.is_err() {
        assert!(d.add_original_shard(1, [7u8; 2]) == Err(Error::DuplicateOriginalShardIndex { index: 1 }));
        assert!(d.add_original_shard(0, [7u8; 2]).is_ok());
    }
}
#[kani::proof]
#[kani::unwind(70)]
fn c12_drop_starts_a_new_round() {
    let mut d = HighRateDecoder::new(3, 2, 2, Dummy, None).unwrap();
    d.add_original_shard(0, [1u8; 2]).unwrap();
    d.add_original_shard(2, [1u8; 2]).unwrap();
    d.add_recovery_shard(1, [1u8; 2]).unwrap();
    {
        let res = d.decode().unwrap();
        assert!(res.restored_original(0).is_none() && res.restored_original(2).is_none());
        assert!(res.restored_original(1).map(|s| s.len()) == Some(2));
        let i: usize = kani::any();
        if i >= 3 { assert!(res.restored_original(i).is_none()); }
        let mut it = res.restored_original_iter();
        assert!(it.next().map(|(i, _)| i) == Some(1));
        assert!(it.next().is_none() && it.next().is_none());
    }
    // implicit reset: the same indexes are accepted again
    assert!(d.add_original_shard(0, [1u8; 2]).is_ok());
    assert!(d.add_recovery_shard(1, [1u8; 2]).is_ok());
    assert!(d.decode().is_err());
}

// ---------------------------------------------------------------- C17 proxy: buffers are reused in place (bounded)

#[kani::proof]
#[kani::unwind(70)]
fn c17_result_buffer_identity() {
    let mut e = HighRateEncoder::new(3, 2, 2, Dummy, None).unwrap();
    for _ in 0..3 { e.add_original_shard([1u8; 2]).unwrap(); }
    let p1 = { let r = e.encode().unwrap(); r.recovery(0).unwrap().as_ptr() };
    for _ in 0..3 { e.add_original_shard([2u8; 2]).unwrap(); }
    let p2 = { let r = e.encode().unwrap(); r.recovery(0).unwrap().as_ptr() };
    assert!(p1 == p2);
    e.reset(2, 2, 2).unwrap();          // needs no more working space
    for _ in 0..2 { e.add_original_shard([3u8; 2]).unwrap(); }
    let p3 = { let r = e.encode().unwrap(); r.recovery(0).unwrap().as_ptr() };
    assert!(p1 == p3);
}

// ---------------------------------------------------------------- C10: one-shot decode never accepts invalid input (bounded: <= 2 originals, no recovery)
// The real generic function is called; DefaultEngine::new() would initialise the tables (CBMC-infeasible),
// but the branch under test returns before any engine is built on the unfixed tree, and on the fixed tree
// the engine is only constructed -- so the table statics are stubbed out of the picture by using shard size 2
// and never calling decode() with missing shards.
#[kani::proof]
#[kani::unwind(12)]
fn c10_oneshot_decode_no_recovery_validates() {
    let i0: usize = kani::any(); let i1: usize = kani::any();
    let l0: usize = kani::any(); let l1: usize = kani::any();
    kani::assume(l0 <= 4 && l1 <= 4);
    let buf = [0u8; 4];
    let originals = [(i0, &buf[..l0]), (i1, &buf[..l1])];
    let r = crate::decode(2, 1, originals, [(0usize, &buf[..0]); 0]);
    if r.is_ok() {
        // success only for a valid complete set: indexes {0,1}, equal even non-zero sizes
        assert!(i0 < 2 && i1 < 2 && i0 != i1);
        assert!(l0 == l1 && l0 != 0 && l0 % 2 == 0);
    }
}

// ---------------------------------------------------------------- cross-checks of assumed contracts added in the build phase

/// prelude.rs: `usize::checked_next_power_of_two` (complete over all usize)
#[kani::proof]
fn std_checked_next_power_of_two() {
    let x: usize = kani::any();
    let r = x.checked_next_power_of_two();
    if x <= (1usize << 63) { let p = r.unwrap(); assert!(p >= x && p.is_power_of_two()); if x <= 65536 { assert!(p == x.next_power_of_two()); } }
    else { assert!(r.is_none()); }
}
/// prelude.rs R18 stub: byte n of u128::from_le_bytes(b) is b[n] (complete: all 16-byte arrays, all n)
#[kani::proof]
fn std_u128_from_le_bytes() {
    let b: [u8; 16] = kani::any();
    let v = u128::from_le_bytes(b);
    let n: usize = kani::any();
    kani::assume(n < 16);
    assert!(((v >> (8 * n)) & 0xff) as u8 == b[n]);
}
/// prelude.rs `<[T]>::to_vec` at the crate's one instantiation T = u8 (bounded: slices of up to 6 bytes, any window of an
/// 6-byte array): same length, same bytes
#[kani::proof]
#[kani::unwind(8)]
fn std_to_vec_u8() {
    let a: [u8; 6] = kani::any();
    let lo: usize = kani::any(); let hi: usize = kani::any();
    kani::assume(lo <= hi && hi <= 6);
    let s: &[u8] = &a[lo..hi];
    let v = s.to_vec();
    assert!(v.len() == s.len());
    let n: usize = kani::any();
    kani::assume(n < s.len());
    assert!(v[n] == s[n]);
}
/// prelude.rs FixedBitSet model (bounded: up to 40 bits, three symbolic operations): len/grow/set/put/contains/clear agree
/// with a reference bit vector
#[kani::proof]
#[kani::unwind(5)]
fn fixedbitset_model_bounded() {
    use fixedbitset::FixedBitSet;
    let n: usize = 37;
    let mut b = FixedBitSet::new();
    b.grow(n);
    assert!(b.len() == n);
    let mut model = [false; 40];
    let mut k = 0;
    while k < 3 {
        let bit: usize = kani::any(); kani::assume(bit < n);
        let op: u8 = kani::any();
        match op % 4 {
            0 => { let e: bool = kani::any(); b.set(bit, e); model[bit] = e; }
            1 => { let prev = b.put(bit); assert!(prev == model[bit]); model[bit] = true; }
            2 => { b.insert(bit); model[bit] = true; }
            _ => { assert!(b.contains(bit) == model[bit] && b[bit] == model[bit]); }
        }
        k += 1;
    }
    let q: usize = kani::any(); kani::assume(q < 40);
    assert!(b.contains(q) == (q < n && model[q]));
    let m: usize = if kani::any() { 40 } else { 12 };
    b.grow(m);
    assert!(b.len() == if m > n { m } else { n });
    assert!(b.contains(q) == (q < n && model[q]));
    b.clear();
    assert!(!b.contains(q) && b.len() == if m > n { m } else { n });
}
