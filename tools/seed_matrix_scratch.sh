#!/bin/bash
# usage: seed_matrix_scratch.sh <outfile> <dir-with-<name>/patch.diff> names...
# like seed_matrix.sh but on a scratch copy of /repo (VERIF_REPO) with its own work directory, so that it can run
# (PROPS="C06 C07" restricts the checks that are run; PROPS=target runs only the check of the property in the change's name)
# in the background while /repo and /verif/work are in use; evidence/ and replays/ of /verif are NOT touched (HOME copy of check)
OUT=$1; ROOT=$(readlink -f $2); shift 2
S=$(mktemp -d /tmp/seedscratch-XXXX)
rsync -a --exclude target --exclude .git /repo/ $S/repo/
rsync -a --exclude work --exclude .git --exclude replays --exclude evidence /verif/ $S/verif/
cd $S/verif
for n in "$@"; do
  rsync -a --delete --exclude target /repo/src/ $S/repo/src/
  (cd $S/repo && patch -s -p1 < $ROOT/$n/patch.diff) || { echo "$n patch failed" >> $OUT; continue; }
  out=""
  [ "$PROPS" = target ] && PL=${n:0:3} || PL=${PROPS:-C01 C02 C03 C04 C05 C06 C07 C08 C09 C10 C11 C12 C13 C14 C15 C17}
  for p in $PL; do
    VERIF_REPO=$S/repo VERIF_WORK=$S/work ./check $p --tier quick $CHECK_ARGS > $S/log.txt 2>&1; rc=$?
    [ $rc -eq 1 ] && out="$out $p"
    [ $rc -eq 2 ] && out="$out $p?"
  done
  echo "$n detected:$out" >> $OUT
done
rm -rf $S
