#!/bin/bash
# usage: seed_failures.sh <patch>  : print the failed obligations (function, kind, clause) Verus reports with the change applied
cd /verif
git -C /repo apply $(readlink -f $1) || exit 3
./check C06 --no-standins >/dev/null 2>&1
python3 - <<'PY'
import json,glob,os
fs=sorted(glob.glob('/verif/work/verus-*-quick.json'),key=os.path.getmtime)
v=json.load(open(fs[-1]))
print('verified',v['verified'],'errors',v['errors'],'front_end_error',(v['front_end_error'] or '')[:600], 'lost', v['lost_anchors'])
for f in v['failures']: print('--',f['fn'],'|',f['kind'],'\n   ',f['clause'][:400].replace('\n','\n    '))
PY
git -C /repo checkout -- .
