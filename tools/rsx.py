#!/usr/bin/env python3
"""Minimal Rust source scanner: tokens, bracket matching, item tree.

Not a Rust parser. It knows enough to
  * skip comments / strings / char literals / lifetimes,
  * match (), [], {},
  * find items (fn, impl, trait, mod, struct, enum, static, const, use, type, macro_rules)
    with their attributes, header and body spans,
  * find loops (while / for / loop) inside a function body, in source order.
Anything it cannot classify raises ScanError (the caller turns that into exit 2).
"""
import re
from dataclasses import dataclass, field
from typing import List, Optional


class ScanError(Exception):
    pass


@dataclass
class Tok:
    kind: str   # id, num, str, chr, life, punct, open, close
    text: str
    pos: int    # offset in source
    end: int


_ID = re.compile(r'[A-Za-z_][A-Za-z0-9_]*')
_NUM = re.compile(r'[0-9][0-9A-Za-z_\.]*')


def tokenize(src: str) -> List[Tok]:
    toks = []
    i, n = 0, len(src)
    while i < n:
        c = src[i]
        if c.isspace():
            i += 1
            continue
        if src.startswith('//', i):
            j = src.find('\n', i)
            i = n if j < 0 else j
            continue
        if src.startswith('/*', i):
            depth, j = 1, i + 2
            while j < n and depth:
                if src.startswith('/*', j):
                    depth += 1; j += 2
                elif src.startswith('*/', j):
                    depth -= 1; j += 2
                else:
                    j += 1
            i = j
            continue
        # raw strings r"..", r#".."#, br#".."#
        m = re.match(r'b?r(#*)"', src[i:])
        if m:
            close = '"' + m.group(1)
            j = src.find(close, i + m.end())
            if j < 0:
                raise ScanError('unterminated raw string at %d' % i)
            toks.append(Tok('str', src[i:j + len(close)], i, j + len(close)))
            i = j + len(close)
            continue
        if c == '"' or (c == 'b' and src.startswith('b"', i)):
            j = i + (2 if c == 'b' else 1)
            while j < n and src[j] != '"':
                j += 2 if src[j] == '\\' else 1
            toks.append(Tok('str', src[i:j + 1], i, j + 1))
            i = j + 1
            continue
        if c == "'":
            # char literal or lifetime
            m = re.match(r"'(\\.[^']*|[^'\\])'", src[i:])
            if m:
                toks.append(Tok('chr', m.group(0), i, i + m.end()))
                i += m.end()
                continue
            m = _ID.match(src, i + 1)
            if m:
                toks.append(Tok('life', src[i:m.end()], i, m.end()))
                i = m.end()
                continue
            raise ScanError("stray ' at %d" % i)
        m = _ID.match(src, i)
        if m:
            toks.append(Tok('id', m.group(0), i, m.end()))
            i = m.end()
            continue
        m = _NUM.match(src, i)
        if m:
            # do not swallow `..` of a range: 0..n
            t = m.group(0)
            k = t.find('..')
            if k >= 0:
                t = t[:k]
            toks.append(Tok('num', t, i, i + len(t)))
            i += len(t)
            continue
        if c in '([{':
            toks.append(Tok('open', c, i, i + 1)); i += 1; continue
        if c in ')]}':
            toks.append(Tok('close', c, i, i + 1)); i += 1; continue
        # multi-char punctuation that matters to us
        for p in ('->', '=>', '::', '..=', '..', '<<=', '>>=', '<=', '>=', '==', '!=', '&&', '||', '+=', '-=', '*=', '/=', '^=', '|=', '&=', '%='):
            if src.startswith(p, i):
                toks.append(Tok('punct', p, i, i + len(p))); i += len(p); break
        else:
            toks.append(Tok('punct', c, i, i + 1)); i += 1
    return toks


_PAIR = {'(': ')', '[': ']', '{': '}'}


def match_brackets(toks: List[Tok]) -> dict:
    """index of open token -> index of matching close token (and back)."""
    st, m = [], {}
    for k, t in enumerate(toks):
        if t.kind == 'open':
            st.append(k)
        elif t.kind == 'close':
            if not st:
                raise ScanError('unbalanced close at %d' % t.pos)
            o = st.pop()
            if _PAIR[toks[o].text] != t.text:
                raise ScanError('mismatched bracket at %d' % t.pos)
            m[o] = k
            m[k] = o
    if st:
        raise ScanError('unbalanced open at %d' % toks[st[-1]].pos)
    return m


ITEM_KW = {'fn', 'impl', 'trait', 'mod', 'struct', 'enum', 'static', 'const', 'use', 'type', 'macro_rules', 'union', 'extern'}
QUALS = {'pub', 'unsafe', 'async', 'default', 'const', 'extern',
         # Verus item modifiers (only met when the *generated* file is parsed by check / summarize)
         'open', 'closed', 'spec', 'proof', 'exec', 'broadcast', 'uninterp', 'axiom'}


@dataclass
class Loop:
    kind: str        # while / for / loop
    kw_pos: int      # offset of keyword
    head_end: int    # offset of '{' opening the loop body
    body_end: int    # offset of matching '}'
    depth: int       # loop nesting depth inside the fn (0 = outermost)


@dataclass
class Item:
    kind: str                     # fn, impl, trait, mod, struct, ...
    name: str                     # fn name / type name / module name ('' for impl -> see target)
    start: int                    # offset of first attribute or qualifier
    header_start: int             # offset after attributes
    kw_pos: int                   # offset of the keyword
    body_open: Optional[int]      # offset of '{' (None if `;`-terminated)
    end: int                      # offset one past '}' or ';'
    attrs: List[str] = field(default_factory=list)
    children: List['Item'] = field(default_factory=list)
    # impl only
    target: str = ''              # implementing type (first ident of the type path)
    trait: str = ''               # trait name if `impl Trait for Type`
    # fn only
    loops: List[Loop] = field(default_factory=list)
    ret_arrow: Optional[int] = None   # offset of '->' in the signature
    sig_end: Optional[int] = None     # offset where spec clauses go (before `{`/`;`, after where clause)
    where_pos: Optional[int] = None   # offset of `where` keyword, if any
    parent: Optional['Item'] = None

    def path(self) -> str:
        parts = []
        it = self
        while it is not None:
            if it.kind == 'impl':
                parts.append(it.target + ('{' + it.trait + '}' if it.trait else ''))
            elif it.kind in ('mod', 'fn', 'trait', 'struct', 'enum'):
                parts.append(it.name)
            it = it.parent
        return '::'.join(reversed(parts))


def parse_items(src: str, toks=None, lo=0, hi=None, match=None, parent=None) -> List[Item]:
    if toks is None:
        toks = tokenize(src)
        match = match_brackets(toks)
        hi = len(toks)
    items = []
    k = lo
    while k < hi:
        start_k = k
        attrs = []
        # attributes
        while k < hi and toks[k].text == '#':
            j = k + 1
            if j < hi and toks[j].text == '!':
                j += 1
            if j >= hi or toks[j].text != '[':
                raise ScanError('bad attribute at %d' % toks[k].pos)
            e = match[j]
            attrs.append(src[toks[k].pos:toks[e].end])
            k = e + 1
        if k >= hi:
            break
        header_k = k
        # qualifiers
        while k < hi and toks[k].kind == 'id' and toks[k].text in QUALS:
            if toks[k].text == 'pub' and k + 1 < hi and toks[k + 1].text == '(':
                k = match[k + 1] + 1
                continue
            if toks[k].text == 'extern' and k + 1 < hi and toks[k + 1].kind == 'str':
                k += 2
                continue
            if toks[k].text == 'const' and k + 1 < hi and toks[k + 1].kind == 'id' and toks[k + 1].text not in ('fn', 'unsafe', 'extern', 'async'):
                break  # `const NAME: T = ..`
            k += 1
        if k >= hi:
            break
        t = toks[k]
        if t.kind != 'id' or t.text not in ITEM_KW:
            # stray tokens between items (e.g. macro invocation `foo! { }` or `;`)
            # consume until ';' at depth 0 or a balanced {...}
            j = k
            while j < hi:
                if toks[j].kind == 'open':
                    j = match[j]
                    if toks[j].text == '}':
                        j += 1
                        break
                elif toks[j].text == ';':
                    j += 1
                    break
                j += 1
            items.append(Item('other', '', toks[start_k].pos, toks[header_k].pos, toks[k].pos, None, toks[j - 1].end, attrs, parent=parent))
            k = j
            continue
        kw = t.text
        kw_k = k
        name = ''
        if kw == 'macro_rules':
            # macro_rules ! name { ... }
            name = toks[k + 2].text
        elif kw == 'impl':
            name = ''
        elif k + 1 < hi and toks[k + 1].kind == 'id':
            name = toks[k + 1].text
        # find body '{' or ';' at depth 0 (skipping (), [] and <> is unnecessary: braces inside
        # generics/where clauses do not occur in this code base)
        j = k + 1
        body_open_k = None
        spec_clause = False
        while j < hi:
            tj = toks[j]
            if tj.kind == 'open':
                if tj.text == '{':
                    if kw == 'fn' and spec_clause and not _item_boundary(toks, match[j] + 1, hi):
                        # a `{ .. }` inside a requires / ensures / decreases clause (if-expression, block): not the body yet
                        j = match[j] + 1
                        continue
                    body_open_k = j
                    break
                j = match[j] + 1
                continue
            if tj.text == ';':
                break
            if tj.kind == 'id' and tj.text in ('requires', 'ensures', 'decreases', 'recommends'):
                spec_clause = True
            j += 1
        if j >= hi:
            raise ScanError('unterminated item at %d' % t.pos)
        if body_open_k is not None:
            end_k = match[body_open_k]
            # `struct X {..}` / `enum` / fn / impl / trait / mod all end at '}'
            # `static X: T = Foo { .. };` / `const` / `use a::{b,c};` end at ';'
            if kw in ('static', 'const', 'use', 'type'):
                jj = end_k + 1
                while jj < hi and toks[jj].text != ';':
                    if toks[jj].kind == 'open':
                        jj = match[jj]
                    jj += 1
                end_k = jj
                body_open_k = None
        else:
            end_k = j
        it = Item(kw, name, toks[start_k].pos, toks[header_k].pos, toks[kw_k].pos,
                  toks[body_open_k].pos if body_open_k is not None else None,
                  toks[end_k].end, attrs, parent=parent)
        if kw == 'impl':
            _impl_header(it, toks, kw_k + 1, body_open_k, match)
        if kw == 'fn':
            _fn_details(it, src, toks, kw_k, body_open_k if body_open_k is not None else end_k, match)
            if body_open_k is not None:
                it.loops = _find_loops(toks, body_open_k + 1, match[body_open_k], match)
        if kw in ('impl', 'trait', 'mod') and body_open_k is not None:
            it.children = parse_items(src, toks, body_open_k + 1, match[body_open_k], match, parent=it)
        items.append(it)
        k = end_k + 1
    return items


def _item_boundary(toks, k, hi):
    """does the token at k start a new item (or end the enclosing block)? Used to tell a function body from a brace group
    inside a Verus spec clause: after the body comes an item, an attribute, or the end of the enclosing block."""
    if k >= hi:
        return True
    t = toks[k]
    if t.kind == 'close':
        return True
    if t.text == '#':
        return True
    return t.kind == 'id' and (t.text in ITEM_KW or t.text in QUALS or t.text in (
        'pub', 'proof', 'spec', 'open', 'closed', 'exec', 'uninterp', 'broadcast', 'axiom', 'tracked', 'ghost', 'global', 'verus'))


def _skip_generics(toks, k, limit):
    """toks[k] is '<': return index after the matching '>' (handles `->`, `>>` is tokenised as two '>')."""
    depth = 0
    while k < limit:
        t = toks[k].text
        if t == '<':
            depth += 1
        elif t == '>':
            depth -= 1
            if depth == 0:
                return k + 1
        elif t == '>>':  # not produced by tokenizer, kept for safety
            depth -= 2
            if depth <= 0:
                return k + 1
        k += 1
    raise ScanError('unterminated generics')


def _impl_header(it: Item, toks, k, body_open_k, match):
    # impl<..> [Trait<..> for] Type<..> [where ..] {
    if toks[k].text == '<':
        k = _skip_generics(toks, k, body_open_k)
    # collect path idents until 'for' / 'where' / '{'
    first_path, second_path = [], []
    cur = first_path
    while k < body_open_k:
        t = toks[k]
        if t.kind == 'id' and t.text == 'for':
            cur = second_path
            k += 1
            continue
        if t.kind == 'id' and t.text == 'where':
            break
        if t.text == '<':
            k = _skip_generics(toks, k, body_open_k)
            continue
        if t.kind == 'open':
            k = match[k] + 1
            continue
        if t.kind == 'id':
            cur.append(t.text)
        k += 1
    if second_path:
        it.trait = first_path[-1] if first_path else ''
        it.target = second_path[-1]
    else:
        it.target = first_path[-1] if first_path else ''
    it.name = it.target


def _fn_details(it: Item, src, toks, kw_k, stop_k, match):
    # fn name <generics>? (params) [-> Ret] [where ...] ({ | ;)
    k = kw_k + 2
    if toks[k].text == '<':
        k = _skip_generics(toks, k, stop_k)
    if toks[k].text != '(':
        raise ScanError('fn without parameter list at %d' % toks[kw_k].pos)
    k = match[k] + 1
    if k < stop_k and toks[k].text == '->':
        it.ret_arrow = toks[k].pos
    # where clause
    j = k
    while j < stop_k:
        if toks[j].kind == 'id' and toks[j].text == 'where':
            it.where_pos = toks[j].pos
            break
        if toks[j].kind == 'open':
            j = match[j]
        j += 1
    it.sig_end = toks[stop_k].pos


def _find_loops(toks, lo, hi, match, depth=0) -> List[Loop]:
    loops = []
    k = lo
    while k < hi:
        t = toks[k]
        if t.kind == 'id' and t.text in ('while', 'for', 'loop'):
            # `for` in `impl X for Y` / HRTB cannot occur inside a fn body in this code base,
            # but `for<'a>` could: skip if next token is '<'
            if t.text == 'for' and toks[k + 1].text == '<':
                k += 1
                continue
            j = k + 1
            while j < hi:
                if toks[j].kind == 'open':
                    if toks[j].text == '{':
                        break
                    j = match[j]
                j += 1
            if j >= hi:
                raise ScanError('loop without body at %d' % t.pos)
            e = match[j]
            loops.append(Loop(t.text, t.pos, toks[j].pos, toks[e].pos, depth))
            loops.extend(_find_loops(toks, j + 1, e, match, depth + 1))
            k = e + 1
            continue
        k += 1
    return loops


def walk(items):
    for it in items:
        yield it
        yield from walk(it.children)


if __name__ == '__main__':
    import sys
    src = open(sys.argv[1]).read()
    for it in walk(parse_items(src)):
        if it.kind in ('fn', 'impl', 'trait', 'mod'):
            print(it.kind, it.path(), 'loops=%d' % len(it.loops) if it.kind == 'fn' else '')
