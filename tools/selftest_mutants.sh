#!/bin/bash
# Framework self-test: textual mutants in code that is under contract must make a Verus obligation fail (quick tier, no stand-ins).
# Runs on scratch copies of /repo (VERIF_REPO); prints, per mutant, the properties whose check reports a violation.
run() { # name file old new props...
  local name=$1 file=$2 old=$3 new=$4; shift 4
  local S=$(mktemp -d /tmp/selftest-XXXX)
  rsync -a --exclude target --exclude .git /repo/ $S/repo/
  python3 - "$S/repo/src/$file" "$old" "$new" <<'PY' || { echo "$name: anchor not found"; rm -rf $S; return; }
import sys
f,old,new=sys.argv[1:4]
s=open(f).read()
if old not in s: sys.exit(3)
open(f,'w').write(s.replace(old,new,1))
PY
  local out=""
  for p in "$@"; do VERIF_REPO=$S/repo VERIF_WORK=$S/work /verif/check $p --no-standins > $S/log 2>&1; rc=$?; [ $rc -eq 1 ] && out="$out $p"; [ $rc -eq 2 ] && out="$out $p?"; done
  echo "$name:$out"
  rm -rf $S
}
run avx2-wrong-table engine/engine_avx2.rs "_mm256_shuffle_epi8(lut_avx2.t2_lo, data_0)" "_mm256_shuffle_epi8(lut_avx2.t3_lo, data_0)" C03 C13 C15
run ssse3-wrong-shift-source engine/engine_ssse3.rs "_mm_and_si128(_mm_srli_epi64(value_hi, 4), clr_mask)" "_mm_and_si128(_mm_srli_epi64(value_lo, 4), clr_mask)" C03 C15
run avx2-store-offset engine/engine_avx2.rs "_mm256_storeu_si256(x_ptr.add(1), prod_hi);" "_mm256_storeu_si256(x_ptr.add(2), prod_hi);" C03 C06 C15
run skew-loop-start engine/tables.rs "for i in m + 1..GF_BITS - 1 {" "for i in m + 2..GF_BITS - 1 {" C15 C02
run mul128-high-byte engine/tables.rs "prod_hi[x] = (prod >> 8) as u8;" "prod_hi[x] = (prod >> 7) as u8;" C15
run explog-poly engine/tables.rs "state ^= GF_POLYNOMIAL;" "state ^= GF_POLYNOMIAL ^ 2;" C15 C02
run zero-excluded-bound engine/shards.rs "Bound::Excluded(end) => end * self.shard_len_64," "Bound::Excluded(end) => (end + 1) * self.shard_len_64," C05 C02 C06
run neon-skew-index engine/engine_neon.rs "let log_m = self.skew[dist + skew_delta - 1];" "let log_m = self.skew[dist + skew_delta];" C03 C15
run neon-detect engine/engine_default.rs 'if std::arch::is_aarch64_feature_detected!("neon") {
            return Neon::eval_poly' 'if true {
            return Neon::eval_poly' C14
# C14 provenance (R23, `ran_as` / `eval_dispatched`)
run evalpoly-order engine/engine_default.rs 'if is_x86_feature_detected!("avx2") {
                return Avx2::eval_poly(erasures, truncated_size);
            }' 'if is_x86_feature_detected!("ssse3") {
                return Ssse3::eval_poly(erasures, truncated_size);
            }
            if is_x86_feature_detected!("avx2") {
                return Avx2::eval_poly(erasures, truncated_size);
            }' C14
run evalpoly-ssse3-compiled-for-avx2 engine/engine_ssse3.rs '#[target_feature(enable = "ssse3")]
    unsafe fn eval_poly_ssse3' '#[target_feature(enable = "avx2")]
    unsafe fn eval_poly_ssse3' C14
run lowrate-decoder-portable-evalpoly rate/rate_low.rs 'E::eval_poly(&mut erasures, GF_ORDER);' 'crate::engine::NoSimd::eval_poly(&mut erasures, GF_ORDER);' C14
run ssse3-engine-calls-avx2-kernel engine/engine_ssse3.rs 'fn eval_poly(erasures: &mut [GfElement; GF_ORDER], truncated_size: usize) {
        unsafe { Self::eval_poly_ssse3(erasures, truncated_size) }' 'fn eval_poly(erasures: &mut [GfElement; GF_ORDER], truncated_size: usize) {
        crate::engine::Avx2::eval_poly(erasures, truncated_size)' C14
