#!/bin/bash
# usage: seed_import.sh <round> <seed-root> <PROPERTY-ID>...
# Validates (tools/seed_validate.sh) the deliverables <seed-root>/<ID>/out/{a,b} of a seeding sub-agent and, when valid, stores
# them as /verif/seeded/<ID>{a,b}-<round>/ (patch.diff, demo.rs, notes.md, meta.json). Removes the agent's worktree afterwards.
R=$1; ROOT=$2; shift 2
for id in "$@"; do
  for v in a b; do
    d=$ROOT/$id/out/$v
    [ -f $d/patch.diff ] || { echo "$id$v-$R: no deliverable"; continue; }
    name=$id$v-$R
    out=$(/verif/tools/seed_validate.sh $name $d/patch.diff $d/demo.rs 2>&1 | tail -1)
    echo "$out"
    case "$out" in *VALID*) ;; *) continue;; esac
    mkdir -p /verif/seeded/$name
    cp $d/patch.diff $d/demo.rs /verif/seeded/$name/
    [ -f $d/notes.md ] && cp $d/notes.md /verif/seeded/$name/
    python3 - $name $id $R <<'PY'
import json,sys,subprocess,re
name,pid,rnd=sys.argv[1:4]
d='/verif/seeded/'+name
diff=open(d+'/patch.diff').read()
ch=[l for l in diff.split('\n') if re.match(r'^[+-][^+-]',l)]
notes=open(d+'/notes.md').read() if __import__('os').path.exists(d+'/notes.md') else ''
title=next((l.strip('# ').strip() for l in notes.split('\n') if l.strip()), '')
sha=subprocess.run(['git','-C','/repo','rev-parse','--short=12','HEAD'],capture_output=True,text=True).stdout.strip()
json.dump({'id':name,'breaks_property':pid,'round':int(rnd),
 'change_and_what_it_needs_to_manifest': (title+': ' if title else '')+' '.join(c.strip() for c in ch[:4])[:300]+' (full description: notes.md)',
 'author':'independent sub-agent given only the property text, a list of earlier ideas to avoid, and a scratch worktree of /repo (nothing from /verif)',
 'validated':'tools/seed_validate.sh: patch applies to /repo HEAD, `cargo test --workspace --no-fail-fast --offline` passes with the change, the demo (as tests/seed_demo.rs) fails with the change and passes without it',
 'base_commit':sha}, open(d+'/meta.json','w'), indent=1)
PY
  done
  git -C /repo worktree remove --force $ROOT/$id >/dev/null 2>&1; rm -rf $ROOT/$id
done
git -C /repo worktree prune
