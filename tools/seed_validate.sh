#!/bin/bash
# usage: seed_validate.sh <name> <patch.diff> <demo.rs>
# Confirms, in a scratch worktree of /repo (removed afterwards), that a seeded change
#  (1) applies and compiles, (2) the unedited test suite still passes with it,
#  (3) the demonstration fails with it and (4) passes without it.
set -u
NAME=$1; PATCH=$(readlink -f $2); DEMO=$(readlink -f $3)
W=/tmp/sv-$NAME
git -C /repo worktree remove --force $W >/dev/null 2>&1; rm -rf $W
git -C /repo worktree add -q --detach $W HEAD || exit 3
cd $W
export CARGO_NET_OFFLINE=true CARGO_TARGET_DIR=$W/target
res() { echo "$NAME: $1"; cd /; git -C /repo worktree remove --force $W; rm -rf $W; exit $2; }
git apply $PATCH || res "patch does not apply" 3
cargo test --workspace --no-fail-fast --offline > suite.log 2>&1 || { tail -30 suite.log; res "SUITE FAILS with the change (not a valid seeded change)" 4; }
cp $DEMO tests/seed_demo.rs
cargo test --offline --test seed_demo > demo_with.log 2>&1 && res "demo PASSES with the change (no demonstration)" 5
grep -E "^test .*FAILED|panicked" demo_with.log | head -5
git apply -R $PATCH
cargo test --offline --test seed_demo > demo_without.log 2>&1 || { tail -30 demo_without.log; res "demo FAILS without the change" 6; }
res "VALID (suite passes with change; demo fails with, passes without)" 0
