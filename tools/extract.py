#!/usr/bin/env python3
"""Build one Verus file from /repo/src + the contract overlay.

usage: extract.py --repo /repo --contracts DIR --out FILE [--arch x86_64|aarch64] [--report FILE] [--write-baseline [FILE]]

The output is the crate's own source text (tests, docs and attributes removed),
nested as modules in one file, rewritten only by the closed rule list R0-R13
(see DESIGN.md section 3) and with contract text spliced in from the overlay.
Every rule application and every overlay splice is recorded in the report.
"""
import argparse, json, os, re, sys
from collections import defaultdict
sys.path.insert(0, os.path.dirname(os.path.abspath(__file__)))
import rsx


TARGET_FEATURES = {'avx2': 'Avx2', 'ssse3': 'Ssse3', 'neon': 'Neon'}


class ExtractError(Exception):
    pass


# ----------------------------------------------------------------------------
# module layout of the crate (file -> module path)

FILES = [
    ('lib.rs', []),
    ('decoder_result.rs', ['decoder_result']),
    ('encoder_result.rs', ['encoder_result']),
    ('reed_solomon.rs', ['reed_solomon']),
    ('engine.rs', ['engine']),
    ('engine/engine_default.rs', ['engine', 'engine_default']),
    ('engine/engine_naive.rs', ['engine', 'engine_naive']),
    ('engine/engine_nosimd.rs', ['engine', 'engine_nosimd']),
    ('engine/engine_avx2.rs', ['engine', 'engine_avx2']),
    ('engine/engine_ssse3.rs', ['engine', 'engine_ssse3']),
    ('engine/engine_neon.rs', ['engine', 'engine_neon']),
    ('engine/fwht.rs', ['engine', 'fwht']),
    ('engine/shards.rs', ['engine', 'shards']),
    ('engine/tables.rs', ['engine', 'tables']),
    ('engine/utils.rs', ['engine', 'utils']),
    ('rate.rs', ['rate']),
    ('rate/decoder_work.rs', ['rate', 'decoder_work']),
    ('rate/encoder_work.rs', ['rate', 'encoder_work']),
    ('rate/rate_default.rs', ['rate', 'rate_default']),
    ('rate/rate_high.rs', ['rate', 'rate_high']),
    ('rate/rate_low.rs', ['rate', 'rate_low']),
]
ARCH_FILES = {'engine/engine_avx2.rs': 'x86_64', 'engine/engine_ssse3.rs': 'x86_64', 'engine/engine_neon.rs': 'aarch64'}

SIMD_TYPES = re.compile(r'\b(__m128i|__m256i|uint8x16_t)\b')


class Edits:
    """non-overlapping text edits on one source string"""
    def __init__(self, src):
        self.src = src
        self.eds = []   # (start, end, text, rule)

    def add(self, start, end, text, rule):
        for (s, e, _, r) in self.eds:
            if start < e and s < end and not (start == end and (start == s or start == e)) and not (s == e and (s == start or s == end)):
                raise ExtractError('overlapping edits %s/%s at %d' % (rule, r, start))
        self.eds.append((start, end, text, rule))

    def apply(self):
        out, pos = [], 0
        # stable order: by start, insertions (start==end) before replacements starting at the same place
        for (s, e, t, _) in sorted(self.eds, key=lambda x: (x[0], x[1] - x[0] != 0)):
            out.append(self.src[pos:s]); out.append(t); pos = max(pos, e)
        out.append(self.src[pos:])
        return ''.join(out)


# ----------------------------------------------------------------------------
# rules

class Rules:
    def __init__(self, arch, report, private=()):
        self.arch = arch
        self.report = report   # rule -> list of (file, line, note)
        self.private = set(private)
        self.modpath = []

    def note(self, rule, fname, src, pos, what=''):
        line = src.count('\n', 0, pos) + 1
        self.report[rule].append({'file': fname, 'line': line, 'note': what})

    # R0: tests, docs, crate attributes, `mod x;`
    def r0_strip(self, fname, src):
        ed = Edits(src)
        items = rsx.parse_items(src)
        for it in items:
            if any(a.replace(' ', '') == '#[cfg(test)]' for a in it.attrs):
                ed.add(it.start, it.end, '', 'R0'); self.note('R0', fname, src, it.start, 'cfg(test) item')
            elif it.kind == 'mod' and it.body_open is None:
                ed.add(it.start, it.end, '', 'R0')
            elif it.kind == 'mod' and it.name == 'algorithm':
                ed.add(it.start, it.end, '', 'R0')
        out = ed.apply()
        out = re.sub(r'^[ \t]*//[/!].*\n', '', out, flags=re.M)          # doc comments
        out = re.sub(r'^#!\[[^\]]*\]\s*\n', '', out, flags=re.M)          # single-line crate attrs
        out = re.sub(r'#!\[allow\([^\]]*\)\]\s*\n', '', out, flags=re.S)  # multi-line crate attrs
        out = re.sub(r'#!\[doc = include_str!\(concat!\(env!\("OUT_DIR"\), "/README-rustdocified.md"\)\)\]\n', '', out)
        return out

    # R13: architecture selection of cfg'd items and cfg'd blocks
    def r13_cfg(self, fname, src):
        x86 = self.arch == 'x86_64'
        pats = [
            (r'#\[cfg\(any\(target_arch = "x86", target_arch = "x86_64"\)\)\]', x86),
            (r'#\[cfg\(target_arch = "x86_64"\)\]', x86),
            (r'#\[cfg\(target_arch = "x86"\)\]', False),
            (r'#\[cfg\(target_arch = "aarch64"\)\]', not x86),
        ]
        changed = True
        while changed:
            changed = False
            for pat, keep in pats:
                m = re.search(pat + r'\s*', src)
                if not m:
                    continue
                changed = True
                self.note('R13', fname, src, m.start(), ('keep ' if keep else 'drop ') + pat)
                if keep:
                    src = src[:m.start()] + src[m.end():]
                    break
                # drop the item / block / statement that follows
                j = m.end()
                depth = 0
                k = j
                while k < len(src):
                    c = src[k]
                    if c in '({[':
                        depth += 1
                    elif c in ')}]':
                        depth -= 1
                        if depth == 0 and c == '}' :
                            # block or braced item ends here unless a ';' follows a `use a::{..};`
                            kk = k + 1
                            while kk < len(src) and src[kk] in ' \t':
                                kk += 1
                            if kk < len(src) and src[kk] == ';':
                                k = kk
                            k += 1
                            break
                    elif c == ';' and depth == 0:
                        k += 1
                        break
                    k += 1
                src = src[:m.start()] + src[k:]
                break
        return src

    # visibility: Verus needs spec-visible items
    def r_vis(self, fname, src):
        src = re.sub(r'\bpub\(crate\) ', 'pub ', src)
        ed = Edits(src)
        toks = rsx.tokenize(src)
        items = rsx.parse_items(src)
        for it in rsx.walk(items):
            head = src[it.header_start:it.kw_pos]
            if it.kind in ('fn', 'struct', 'enum', 'const', 'static', 'type') and 'pub' not in head:
                in_trait = it.parent is not None and (it.parent.kind == 'trait' or (it.parent.kind == 'impl' and it.parent.trait))
                if not in_trait:
                    ed.add(it.header_start, it.header_start, 'pub ', 'VIS')
            if it.kind == 'struct' and '::'.join(self.modpath + [it.name]) in self.private:
                continue
            if it.kind == 'struct':
                if it.body_open is not None:
                    # named fields: tokens at depth 0 of the struct body, a field starts after '{' or ','
                    btoks = [t for t in toks if it.body_open < t.pos < it.end - 1]
                    depth = 0
                    angle = 0
                    at_field_start = True
                    k = 0
                    while k < len(btoks):
                        t = btoks[k]
                        if at_field_start and depth == 0 and angle == 0:
                            # skip attributes
                            if t.text == '#':
                                k += 1
                                d = 0
                                while k < len(btoks):
                                    if btoks[k].kind == 'open': d += 1
                                    elif btoks[k].kind == 'close':
                                        d -= 1
                                        if d == 0: break
                                    k += 1
                                k += 1
                                continue
                            if t.kind == 'id' and t.text != 'pub' and k + 1 < len(btoks) and btoks[k + 1].text == ':':
                                ed.add(t.pos, t.pos, 'pub ', 'VIS')
                            at_field_start = False
                        if t.kind == 'open': depth += 1
                        elif t.kind == 'close': depth -= 1
                        elif t.text == '<': angle += 1
                        elif t.text == '>': angle -= 1
                        elif t.text == ',' and depth == 0 and angle == 0: at_field_start = True
                        k += 1
                else:
                    # tuple struct: `struct X(T);` / `struct X<E>(PhantomData<E>);`
                    m = re.search(r'\(', src[it.kw_pos:it.end])
                    if m:
                        p = it.kw_pos + m.end()
                        if not src[p:].lstrip().startswith('pub'):
                            ed.add(p, p, 'pub ', 'VIS')
        return ed.apply()

    def regex_rule(self, rule, fname, src, pat, repl, flags=0, expect=None):
        n = 0
        def f(m):
            nonlocal n
            n += 1
            self.note(rule, fname, src, m.start(), m.group(0)[:60].replace('\n', ' '))
            return repl(m) if callable(repl) else m.expand(repl)
        out = re.sub(pat, f, src, flags=flags)
        if expect is not None and n != expect:
            raise ExtractError('%s: rule %s matched %d times, expected %d' % (fname, rule, n, expect))
        return out

    def apply_all(self, fname, src):
        src = self.r0_strip(fname, src)
        src = self.r13_cfg(fname, src)
        # R3
        src = self.regex_rule('R3', fname, src, r'dyn Engine \+ Send \+ Sync', 'dyn Engine')
        # R8
        src = self.regex_rule('R8', fname, src, r'debug_assert_eq!\(([^;]+?), ([^;,]+?)\);', r'debug_assert!(\1 == \2);')
        # R18: u128::from_le_bytes has an anonymous-constant array length in its signature that assume_specification cannot name:
        # the call goes to an in-file stub carrying the assumed contract (same role as an assume_specification)
        src = self.regex_rule('R18', fname, src, r'\bu128::from_le_bytes\(', 'crate::vprelude::u128_from_le_bytes(')
        # R19: `<Box<[T; N]>>.copy_from_slice(src)` (auto-deref to the array, unsizing to a slice) makes this Verus abort with an
        # internal error; the call goes to an in-file stub carrying slice::copy_from_slice's contract (one place: initialize_log_walsh)
        src = self.regex_rule('R19', fname, src, r'\blog_walsh\.copy_from_slice\(', 'crate::vprelude::box_array_copy_from_slice(&mut log_walsh, ')
        # R20: `<Box<T>>.as_mut()` -> `&mut *<box>` (that is the body of Box's AsMut impl; its ?Sized signature cannot be given
        # an assume_specification with value-level postconditions). One place: initialize_log_walsh.
        src = self.regex_rule('R20', fname, src, r'\blog_walsh\.as_mut\(\)', '&mut *log_walsh')
        # R9
        src = self.regex_rule('R9', fname, src, r'(?:std::arch::)?is_(?:x86|aarch64)_feature_detected!\("([\w.]+)"\)',
                              lambda m: 'crate::vprelude::detect_%s()' % m.group(1) if m.group(1) in ('avx2', 'ssse3', 'neon') else 'crate::vprelude::detect_other_feature()')
        # R1
        def static_rule(m):
            name, ty, init = m.group(1), m.group(2), m.group(3)
            return ('#[verifier::external_body]\npub fn %s_get() -> (r: &\'static %s)\n    ensures crate::vspec::tables::ok_%s(r)\n{ unimplemented!() }' % (name, ty, name))
        src = self.regex_rule('R1', fname, src, r'pub static (\w+): LazyLock<(.+?)> = LazyLock::new\((\w+)\);', static_rule)
        src = self.regex_rule('R1', fname, src, r'&\*tables::(EXP_LOG|LOG_WALSH|MUL16|MUL128|SKEW)\b', r'tables::\1_get()')
        src = self.regex_rule('R1', fname, src, r'\*EXP_LOG\.log\b', r'*EXP_LOG_get().log')
        src = self.regex_rule('R1', fname, src, r'&\*EXP_LOG\.(exp|log)\b', r'&*EXP_LOG_get().\1')
        src = src.replace('use std::sync::LazyLock;\n', '')
        # R2
        src = self.regex_rule('R2', fname, src, r'use fixedbitset::FixedBitSet;', 'use crate::vprelude::fixedbitset::FixedBitSet;')
        # R4
        src = self.regex_rule('R4', fname, src, r'<T: AsRef<\[u8\]>>', '')
        src = self.regex_rule('R4', fname, src, r'\b(original_shard|recovery_shard): T\b', r'\1: &[u8]')
        src = self.regex_rule('R4', fname, src, r'let (original_shard|recovery_shard) = \1\.as_ref\(\);', r'let \1 = \1;')
        # R15: Verus' lifetime pass mis-evaluates a cast in an array-length const expression
        src = self.regex_rule('R15', fname, src, r'\bGF_MODULUS as usize\b', '65535')
        # R16: `*x ^= y` with y: &u8 -> `*x ^= *y` (std forwards the by-reference operator to exactly this; vstd only specs the by-value one)
        if fname == 'engine/utils.rs':
            src = self.regex_rule('R16', fname, src, r'\*x \^= y;', '*x ^= *y;', expect=1)
        # R12
        src = self.regex_rule('R12', fname, src, r"(    fn fmt\(&self, f: &mut fmt::Formatter<'_>\) -> fmt::Result \{)", r'    #[verifier::external_body]\n\1')
        if fname == 'lib.rs':
            src = self.r5_oneshot(fname, src)
            # R14 (decode): `for PAT in decoder.decode()?.restored_original_iter() {B}` -> the definition of `for` in the Rust
            # reference, with the temporary hoisted into a `let` of an enclosing block (see r14_for_unfold). The loop over the
            # crate's own iterator is then verified against the contract of its `next` (nothing assumed).
            # (encode's tail `result.recovery_iter().map(<[u8]>::to_vec).collect()` is NOT rewritten: it is verified as written,
            #  against vstd's specs of `map` / `collect` and the checked prophetic model of `Recovery` in results.vspec.)
            src = self.r14_for_unfold(fname, src)
        if fname == 'engine/fwht.rs':
            src = self.r7_step_by(fname, src)
        src = self.r6_zip(fname, src)
        src = self.r17_zero(fname, src)
        if fname == 'engine/shards.rs':
            # R22: `&mut self.data[a..b]` on the Vec of `Shards` -> `&mut self.data.as_mut_slice()[a..b]`: Vec's IndexMut<Range>
            # is defined as indexing its slice (`IndexMut::index_mut(&mut **self, index)`); vstd specifies range IndexMut for
            # slices only (the slice twin ShardsRefMut::index_mut is verified with the same proof text)
            src = self.regex_rule('R22', fname, src, r'(impl IndexMut<usize> for Shards \{\s*fn index_mut\(&mut self, index: usize\) -> &mut Self::Output \{\s*)&mut self\.data\[', r'\1&mut self.data.as_mut_slice()[')
        if fname in ('rate.rs', 'engine.rs') or fname.startswith('rate/rate_') or fname.startswith('engine/engine_'):
            src = self.r11_assoc(fname, src)
        if fname in ARCH_FILES:
            # every SIMD engine file has an intrinsic model (build() only reads the files of the current view)
            src = self.r10_model_neon(fname, src) if ARCH_FILES[fname] == 'aarch64' else self.r10_model(fname, src)
        src = self.r_vis(fname, src)
        return src

    def r5_oneshot(self, fname, src):
        src = self.regex_rule('R5', fname, src,
            r'pub fn encode<T>\(\s*original_count: usize,\s*recovery_count: usize,\s*original: T,\s*\) -> Result<Vec<Vec<u8>>, Error>\s*where\s*T: IntoIterator,\s*T::Item: AsRef<\[u8\]>,\s*\{',
            "pub fn encode<'a>(\n    original_count: usize,\n    recovery_count: usize,\n    original: Vec<&'a [u8]>,\n) -> Result<Vec<Vec<u8>>, Error>\n{", expect=1)
        src = self.regex_rule('R5', fname, src,
            r'pub fn decode<O, R, OT, RT>\(\s*original_count: usize,\s*recovery_count: usize,\s*original: O,\s*recovery: R,\s*\) -> Result<HashMap<usize, Vec<u8>>, Error>\s*where.*?\{',
            "pub fn decode<'a>(\n    original_count: usize,\n    recovery_count: usize,\n    original: Vec<(usize, &'a [u8])>,\n    recovery: Vec<(usize, &'a [u8])>,\n) -> Result<HashMap<usize, Vec<u8>>, Error>\n{", flags=re.S, expect=1)
        src = self.regex_rule('R5', fname, src, r'first\.as_ref\(\)\.len\(\)', 'first.len()', expect=1)
        src = self.regex_rule('R5', fname, src, r'first_recovery\.1\.as_ref\(\)\.len\(\)', 'first_recovery.1.len()', expect=1)
        return src

    def r14_for_unfold(self, fname, src):
        """R14: `for PAT in decoder.decode()?.restored_original_iter() {B}` (one place: lib.rs::decode) ->

            {
                let decoder_result = decoder.decode()?;
                let mut decoder_result_iter = decoder_result.restored_original_iter();
                loop {
                    match decoder_result_iter.next() {
                        Some(PAT) => {B}
                        None => break,
                    }
                }
            }

        This is the definition of `for` (Rust reference, "Iterator loops"): `match IntoIterator::into_iter(EXPR) { mut iter =>
        loop { match Iterator::next(&mut iter) { Some(val) => { let PAT = val; B }, None => break } } }`, with
          * `IntoIterator::into_iter` on a type that is itself an `Iterator` being the identity (std's blanket
            `impl<I: Iterator> IntoIterator for I { fn into_iter(self) -> I { self } }`) - the one std fact used;
          * the temporary `decoder.decode()?` of the iterator expression bound by a `let` (Verus' own handling of a temporary
            in that position shortens its lifetime, E0716): Rust keeps that temporary alive until the end of the `for`
            statement, which the enclosing block reproduces (the iterator is dropped first, then the `DecoderResult`, exactly
            as in the original; the `?` is evaluated at the same point, before the first `next`).
        PAT and B are copied verbatim (`break` / `continue` inside B still refer to this loop). Verus' built-in `for` is not
        used because it reasons through vstd's prophetic iterator model, which is not claimed for `RestoredOriginal`
        (`obeys_prophetic_iter_laws() == false` in results.vspec); the unfolded loop calls the verified `next` directly."""
        pat = r'for ([^\n]+?) in decoder\.decode\(\)\?\.restored_original_iter\(\) \{'
        ms = list(re.finditer(pat, src))
        if len(ms) != 1:
            raise ExtractError('%s: rule R14 matched %d times, expected 1' % (fname, len(ms)))
        m = ms[0]
        self.note('R14', fname, src, m.start(), m.group(0)[:80])
        j = m.end() - 1
        depth, k = 0, j
        while True:
            if src[k] == '{': depth += 1
            elif src[k] == '}':
                depth -= 1
                if depth == 0: break
            k += 1
        ind = re.search(r'([ \t]*)$', src[:m.start()]).group(1)
        # the body keeps its own text; only its indentation is shifted (three levels deeper)
        body = src[j + 1:k].rstrip().replace('\n', '\n            ') + '\n' + ind + '            '
        new = ('{\n%s    let decoder_result = decoder.decode()?;\n'
               '%s    let mut decoder_result_iter = decoder_result.restored_original_iter();\n'
               '%s    loop {\n'
               '%s        match decoder_result_iter.next() {\n'
               '%s            Some(%s) => {%s}\n'
               '%s            None => break,\n'
               '%s        }\n'
               '%s    }\n'
               '%s}') % (ind, ind, ind, ind, ind, m.group(1), body, ind, ind, ind, ind)
        return src[:m.start()] + new + src[k + 1:]

    def r7_step_by(self, fname, src):
        pat = r'for (\w+) in \((\w+)\.\.(\w+)\)\.step_by\((\w+)\) \{'
        m = re.search(pat, src)
        while m:
            self.note('R7', fname, src, m.start(), m.group(0))
            var, lo, hi, step = m.groups()
            # find matching close brace of the loop body
            j = m.end() - 1
            depth = 0
            k = j
            while True:
                if src[k] == '{': depth += 1
                elif src[k] == '}':
                    depth -= 1
                    if depth == 0: break
                k += 1
            indent = re.search(r'([ \t]*)$', src[:m.start()]).group(1)
            body = src[j + 1:k]
            new = ('let mut %s = %s;\n%swhile %s < %s {%s    %s += %s;\n%s}' % (var, lo, indent, var, hi, body, var, step, indent))
            src = src[:m.start()] + new + src[k + 1:]
            m = re.search(pat, src)
        return src

    def r17_zero(self, fname, src):
        """R17: `ShardsRefMut::zero<R: RangeBounds<usize>>` is generic, and vstd specifies `start_bound`/`end_bound` only per
        concrete range type. The function is emitted once per range form the crate calls it with (`a..b` -> `zero_range`,
        `a..` -> `zero_from`; identical bodies, `R` replaced by the concrete type) and each call site is routed by the
        syntactic form of its argument. Any other argument form is left alone (and then does not compile: undecided)."""
        if fname == 'engine/shards.rs':
            m = re.search(r'([ \t]*)pub fn zero<R: RangeBounds<usize>>\(&mut self, range: R\) \{', src)
            if m:
                items = rsx.parse_items(src)
                for it in rsx.walk(items):
                    if it.kind == 'fn' and it.name == 'zero' and it.body_open is not None:
                        text = src[it.start:it.end]
                        a = text.replace('pub fn zero<R: RangeBounds<usize>>(&mut self, range: R)', 'pub fn zero_range(&mut self, range: std::ops::Range<usize>)')
                        b = text.replace('pub fn zero<R: RangeBounds<usize>>(&mut self, range: R)', 'pub fn zero_from(&mut self, range: std::ops::RangeFrom<usize>)')
                        self.note('R17', fname, src, it.start, 'zero<R> -> zero_range + zero_from')
                        return src[:it.start] + a + '\n\n    ' + b + src[it.end:]
            return src
        def route(m):
            # argument = balanced text up to the matching parenthesis
            i = m.end(); depth = 1; j = i
            while depth:
                c = src[j]
                depth += c in '([{'; depth -= c in ')]}'
                j += 1
            arg = src[i:j - 1].strip()
            if arg.endswith('..'):
                return 'zero_from('
            if '..' in arg and '..=' not in arg and not arg.startswith('..'):
                return 'zero_range('
            return m.group(0)
        out, last = [], 0
        for m in re.finditer(r'(?<=\.)zero\(', src):
            out.append(src[last:m.start()]); out.append(route(m)); last = m.end()
            self.note('R17', fname, src, m.start(), 'call site')
        out.append(src[last:])
        return ''.join(out)

    def r6_zip(self, fname, src):
        n = [0]
        def two(m):
            n[0] += 1
            a, b, xs, ys, mut2 = m.group(1), m.group(2), m.group(3), m.group(4), m.group(5)
            self.note('R6', fname, src, m.start(), m.group(0))
            i = 'zi_' + a
            return ('for %s in zit_%s: 0..(if %s.len() < %s.len() { %s.len() } else { %s.len() }) { let %s = &mut %s[%s]; let %s = &%s%s[%s];'
                    % (i, a, xs, ys, xs, ys, a, xs, i, b, 'mut ' if mut2 else '', ys, i))
        src = re.sub(r'for \((\w+), (\w+)\) in (?:std::iter::)?zip\((\w+)\.iter_mut\(\), (\w+)\.iter(_mut)?\(\)\) \{', two, src)
        def one(m):
            n[0] += 1
            a, xs = m.group(1), m.group(2)
            self.note('R6', fname, src, m.start(), m.group(0))
            i = 'zi_' + a
            return 'for %s in zit_%s: 0..%s.len() { let %s = &mut %s[%s];' % (i, a, xs, a, xs, i)
        src = re.sub(r'for (\w+) in (\w+)\.iter_mut\(\) \{', one, src)
        # eval_poly: zip over array iter_mut and a table
        def ev(m):
            n[0] += 1
            self.note('R6', fname, src, m.start(), m.group(0))
            i = 'zi_' + m.group(1)
            return 'for %s in zit_%s: 0..%s.len() { let %s = &mut %s[%s]; let %s = &%s[%s];' % (i, m.group(1), m.group(3), m.group(1), m.group(3), i, m.group(2), m.group(4), i)
        src = re.sub(r'for \((\w+), (\w+)\) in std::iter::zip\((\w+)\.iter_mut\(\), (\w+)\.iter\(\)\) \{', ev, src)
        return src

    def r11_assoc(self, fname, src):
        """R11: (a) drop the `type Rate` back-reference of RateEncoder/RateDecoder (trait cycle);
        (b) monomorphise the provided (default) methods of the three rate traits into every impl:
            the trait keeps the signature, each impl gets a copy of the default body with
            `Self::Rate` replaced by the impl's own `type Rate = X`."""
        if fname in ('rate.rs', 'engine.rs'):
            if fname == 'rate.rs':
                src = self.regex_rule('R11', fname, src, r'\n[ \t]*type Rate: Rate<E>;\n', '\n', expect=2)
            items = rsx.parse_items(src)
            ed = Edits(src)
            self.provided = getattr(self, 'provided', {})
            for tr in items:
                if tr.kind != 'trait':
                    continue
                for it in tr.children:
                    # `Rate::encoder/decoder` stay provided: copying them into `impl Rate for X` would make that impl
                    # depend on `impl RateDecoder for ..` whose `supports` copy depends back on it (Verus cycle check)
                    if it.kind == 'fn' and it.body_open is not None and not (tr.name == 'Rate' and it.name in ('encoder', 'decoder')):
                        self.provided.setdefault(tr.name, []).append(src[it.header_start:it.end])
                        ed.add(it.body_open, it.end, ';', 'R11')
                        # drop trailing whitespace between signature and body
                        self.note('R11', fname, src, it.start, 'provided method %s::%s -> required + per-impl copies' % (tr.name, it.name))
            out = ed.apply()
            out = re.sub(r'\) -> ([^;{]+?)\s+;', r') -> \1;', out)
            return out
        # impl files
        items = rsx.parse_items(src)
        ed = Edits(src)
        for im in items:
            if im.kind != 'impl' or im.trait not in getattr(self, 'provided', {}):
                continue
            rate_ty = None
            m = re.search(r'\n[ \t]*type Rate = (\w+<E>);\n', src[im.start:im.end])
            if m:
                rate_ty = m.group(1)
                ed.add(im.start + m.start() + 1, im.start + m.end(), '', 'R11')
            have = {c.name for c in im.children if c.kind == 'fn'}
            text = ''
            for body in self.provided[im.trait]:
                name = re.search(r'fn (\w+)', body).group(1)
                if name in have:
                    continue
                b = body
                if rate_ty:
                    b = b.replace('Self::Rate::', '<%s as Rate<E>>::' % rate_ty)
                if im.trait == 'Engine':
                    # the copy lands in another module: names of `engine.rs` are written with their full path
                    b = re.sub(r'(?<![\w:])(GF_ORDER|GfElement|utils::)', r'crate::engine::\1', b)
                text += '\n    ' + b + '\n'
                self.note('R11', fname, src, im.start, 'copy of provided %s::%s into impl for %s' % (im.trait, name, im.target))
            ed.add(im.end - 1, im.end - 1, text, 'R11')
        return ed.apply()

    def r10_model(self, fname, src):
        """x86 SIMD engines: keep every kernel, verified over the intrinsic model of prelude.rs `simd`.
        (a) `use std::arch::x86_64::*` -> the model module (types and intrinsics keep their names);
        (b) raw-pointer plumbing, per function: `let P = X.as_mut_ptr().cast::<__mNi>();` is dropped and every
            `_mmN_loadu_siN(P[.add(k)])` / `_mmN_storeu_siN(P[.add(k)], v)` becomes `loadN(X, k)` / `storeN(X, k, v)`
            (X: &mut [u8; 64]; the in-bounds condition k*N/8 + N/8 <= 64 is the stub's precondition);
        (c) `_mm_loadu_si128(std::ptr::from_ref::<u128>(&E).cast::<__m128i>())` -> `load128_u128(&E)`.
        Anything pointer-shaped that these patterns do not cover is left as is and fails in Verus' front end (localised)."""
        src = re.sub(r'#\[cfg\(target_arch = "x86"\)\]\s*use std::arch::x86::\*;\s*', '', src)
        src = self.regex_rule('R10', fname, src, r'use std::arch::x86_64::\*;', 'use crate::vprelude::simd::*;')
        src = self.regex_rule('R10', fname, src, r'_mm_loadu_si128\(\s*std::ptr::from_ref::<u128>\(&([^()]+?)\)\s*\.cast::<__m128i>\(\),?\s*\)', r'load128_u128(&\1)')
        # R21: destructuring assignment of a pair `(a, b) = e;` -> `let t = e; a = t.0; b = t.1;` (its definition; Verus lacks the sugar)
        src = self.regex_rule('R21', fname, src, r'(?m)^([ \t]*)\((\w+), (\w+)\) = ([^;\n]+);', lambda m: '%slet r21_%s = %s; %s = r21_%s.0; %s = r21_%s.1;' % (m.group(1), m.group(2), m.group(4), m.group(2), m.group(2), m.group(3), m.group(2)))
        items = rsx.parse_items(src)
        ed = Edits(src)
        for it in rsx.walk(items):
            if it.kind != 'fn' or it.body_open is None:
                continue
            body = src[it.body_open:it.end]
            ptrs = {}
            for m in re.finditer(r'[ \t]*let (\w+) = (\w+)\.as_mut_ptr\(\)\.cast::<__m(128|256)i>\(\);[ \t]*\n', body):
                ptrs[m.group(1)] = (m.group(2), m.group(3))
                ed.add(it.body_open + m.start(), it.body_open + m.end(), '', 'R10')
                self.note('R10', fname, src, it.body_open + m.start(), 'pointer %s = %s as *mut __m%si' % (m.group(1), m.group(2), m.group(3)))
            for P, (X, w) in ptrs.items():
                # the aligned forms (`_mm_load_si128`, `_mm256_store_si256`, ...) go to `loadN_aligned` / `storeN_aligned`, whose
                # extra precondition `ptr_aligned(X, N/8)` nothing in the crate can establish for a `[u8; 64]` (alignment 1)
                for sfx, al in (('u', ''), ('', '_aligned')):
                    ld = '_mm_load%s_si128' % sfx if w == '128' else '_mm256_load%s_si256' % sfx
                    st = '_mm_store%s_si128' % sfx if w == '128' else '_mm256_store%s_si256' % sfx
                    for m in re.finditer(r'\b%s\(\s*%s(?:\.add\((\d+)\))?\s*\)' % (ld, P), body):
                        ed.add(it.body_open + m.start(), it.body_open + m.end(), 'load%s%s(%s, %s)' % (w, al, X, m.group(1) or '0'), 'R10')
                    for m in re.finditer(r'\b%s\(\s*%s(?:\.add\((\d+)\))?\s*,' % (st, P), body):
                        ed.add(it.body_open + m.start(), it.body_open + m.end(), 'store%s%s(%s, %s,' % (w, al, X, m.group(1) or '0'), 'R10')
        return ed.apply()

    def r10_model_neon(self, fname, src):
        """Neon engine (aarch64 view): keep every kernel, verified over the intrinsic model of prelude.rs `neon`.
        (a) `use std::arch::aarch64::*` -> the model module (`uint8x16_t` and the intrinsics keep their names);
        (b) raw-pointer plumbing, per function: `let P: *mut u8 = X.as_mut_ptr();` is dropped and every
            `vld1q_u8(P)` / `vld1q_u8(P.add(E))` / `vst1q_u8(P, v)` / `vst1q_u8(P.add(E), v)` becomes
            `nload(X, 0)` / `nload(X, E)` / `nstore(X, 0, v)` / `nstore(X, E, v)` where E is the literal byte-offset expression
            of the source (`16`, `16 * 2`, `16 * 3`), copied verbatim (X: &mut [u8; 64]; the in-bounds condition
            E + 16 <= 64 is the stub's precondition);
        (c) `vld1q_u8(std::ptr::from_ref::<u128>(&E).cast::<u8>())` -> `nload_u128(&E)`;
        (d) R21 as for the x86 engines.
        Anything pointer-shaped that these patterns do not cover is left as is and fails in Verus' front end (localised): a
        pointer bound more than once in a function is not rewritten at all, a use of a dropped pointer outside the two
        intrinsics names a variable that no longer exists.
        `#[target_feature(enable = "neon")]` becomes a comment: Verus runs rustc for the host target, which rejects a feature
        name of another architecture. The attribute only selects code generation; what it demands of the caller is stated by
        the overlay as `requires cpu_has_neon()` on exactly these functions (C14), as for the x86 entry points."""
        src = self.regex_rule('R10', fname, src, r'use std::arch::aarch64::\*;', 'use crate::vprelude::neon::*;')
        src = self.regex_rule('R10', fname, src, r'#\[target_feature\(enable = "neon"\)\]', '// R10: #[target_feature(enable = "neon")]')
        src = self.regex_rule('R10', fname, src, r'vld1q_u8\(\s*std::ptr::from_ref::<u128>\(&([^()]+?)\)\s*\.cast::<u8>\(\),?\s*\)', r'nload_u128(&\1)')
        # R21: destructuring assignment of a pair `(a, b) = e;` -> `let t = e; a = t.0; b = t.1;` (its definition; Verus lacks the sugar)
        src = self.regex_rule('R21', fname, src, r'(?m)^([ \t]*)\((\w+), (\w+)\) = ([^;\n]+);', lambda m: '%slet r21_%s = %s; %s = r21_%s.0; %s = r21_%s.1;' % (m.group(1), m.group(2), m.group(4), m.group(2), m.group(2), m.group(3), m.group(2)))
        items = rsx.parse_items(src)
        ed = Edits(src)
        OFF = r'\d+(?:[ \t]*\*[ \t]*\d+)?'    # literal byte offset: `16`, `16 * 2`
        for it in rsx.walk(items):
            if it.kind != 'fn' or it.body_open is None:
                continue
            body = src[it.body_open:it.end]
            ptrs, decl = {}, {}
            for m in re.finditer(r'[ \t]*let (\w+): \*mut u8 = (\w+)\.as_mut_ptr\(\);[ \t]*\n', body):
                decl.setdefault(m.group(1), []).append(m)
            for P, ms in decl.items():
                # the name must be bound exactly once in the function (any other `let P` makes P -> X ambiguous: left alone)
                if len(ms) != 1 or len(re.findall(r'\blet\s+(?:mut\s+)?%s\b' % P, body)) != 1:
                    continue
                m = ms[0]
                ptrs[P] = m.group(2)
                ed.add(it.body_open + m.start(), it.body_open + m.end(), '', 'R10')
                self.note('R10', fname, src, it.body_open + m.start(), 'pointer %s = %s as *mut u8' % (P, m.group(2)))
            for P, X in ptrs.items():
                for m in re.finditer(r'\bvld1q_u8\(\s*%s(?:\.add\((%s)\))?\s*\)' % (P, OFF), body):
                    new = 'nload(%s, %s)' % (X, m.group(1) or '0')
                    ed.add(it.body_open + m.start(), it.body_open + m.end(), new, 'R10')
                    self.note('R10', fname, src, it.body_open + m.start(), '%s -> %s' % (m.group(0), new))
                for m in re.finditer(r'\bvst1q_u8\(\s*%s(?:\.add\((%s)\))?\s*,' % (P, OFF), body):
                    new = 'nstore(%s, %s,' % (X, m.group(1) or '0')
                    ed.add(it.body_open + m.start(), it.body_open + m.end(), new, 'R10')
                    self.note('R10', fname, src, it.body_open + m.start(), '%s -> %s' % (m.group(0), new))
        return ed.apply()

    def r10_simd(self, fname, src):
        """drop leaf kernels that mention SIMD types; blank the body of fns that call them.
        (The rule every SIMD engine went through before the intrinsic models existed; no file of either view uses it any more -
        kept as the fallback for an ARCH_FILES entry without a model.)
        `#[target_feature(enable = "neon")]` becomes a comment: Verus runs rustc for the host target, which rejects a feature
        name of another architecture. The attribute only selects code generation; what it demands of the caller is stated by
        the overlay as `requires cpu_has_neon()` on exactly these functions (C14), as for the x86 entry points."""
        src = re.sub(r'#\[cfg\(target_arch = "x86"\)\]\s*use std::arch::x86::\*;\s*', '', src)
        src = re.sub(r'use std::arch::(x86_64|aarch64)::\*;\s*', '', src)
        src = self.regex_rule('R10', fname, src, r'#\[target_feature\(enable = "neon"\)\]', '// R10: #[target_feature(enable = "neon")]')
        items = rsx.parse_items(src)
        ed = Edits(src)
        dropped = set()
        dropped_items = []
        # types first, then (to a fixpoint) functions whose signature needs a dropped type
        for it in rsx.walk(items):
            if it.kind == 'struct' and SIMD_TYPES.search(src[it.start:it.end]):
                dropped.add(it.name); dropped_items.append((it, 'drop type ' + it.name))
        for it in rsx.walk(items):
            if it.kind == 'impl' and it.target in dropped:
                dropped_items.append((it, 'drop impl for ' + it.target))
        changed = True
        while changed:
            changed = False
            for it in rsx.walk(items):
                if it.kind == 'fn' and it.body_open is not None and it.name not in dropped:
                    if it.parent is not None and it.parent.kind == 'impl' and it.parent.target in dropped:
                        continue
                    sig = src[it.kw_pos:it.body_open]
                    if SIMD_TYPES.search(sig) or any(re.search(r'\b' + d + r'\b', sig) for d in dropped):
                        dropped.add(it.name); dropped_items.append((it, 'drop kernel ' + it.name)); changed = True
        for it, what in dropped_items:
            ed.add(it.start, it.end, '', 'R10')
            self.note('R10', fname, src, it.start, what)
        # second pass: functions whose body mentions a dropped name or a SIMD type / raw pointer cast
        for it in rsx.walk(items):
            if it.kind == 'fn' and it.body_open is not None and it.name not in dropped and not (it.parent and it.parent.kind == 'impl' and it.parent.target in dropped):
                body = src[it.body_open:it.end]
                if SIMD_TYPES.search(body) or any(re.search(r'\b' + d + r'\b', body) for d in dropped):
                    ed.add(it.body_open, it.end, '{ unimplemented!() }', 'R10')
                    ed.add(it.header_start, it.header_start, '#[verifier::external_body]\n    ', 'R10')
                    self.note('R10', fname, src, it.start, 'assume ' + it.name)
        return ed.apply()


# ----------------------------------------------------------------------------
# overlay

class Overlay:
    """
    @@ fn <module path>::<Type{Trait}>::<name>
    @ret <name>
    @attr <attribute line>
    @spec
        <requires/ensures/decreases text, inserted before the body>
    @loop <ordinal> [iter <name>]
        <invariant/decreases text>
    @hint start | end | before "<text>" [#n] | after "<text>" [#n] | loop <k> start | loop <k> end | loop <k> after
        <text>
    @@ module <module path>
        <items appended to that module>
    @@ inside <trait-or-impl path>
        <items inserted before the closing brace of that trait / impl>

    Architecture views (R13 selects the x86_64 or the aarch64 items of the crate; the overlay follows):
      * an entry whose key lies in the module of a source file that ARCH_FILES excludes from the current view
        (`engine::engine_avx2::..`, `engine::engine_ssse3::..` in the aarch64 view, `engine::engine_neon::..` in the x86_64
        view) is skipped: it is not spliced, and it is not a lost anchor (the function is absent by construction, not edited);
      * `@arch x86_64` / `@arch aarch64` as a line of an `@@ fn` / `@@ module` / `@@ inside` entry restricts that entry to the
        named view(s); this is for entries of modules both views share (e.g. `engine::engine_default`), where the same key
        needs a different contract per view;
      * an `@@` header may list several keys separated by blanks: the entry is applied to each of them (one text for
        textually identical functions of different engines); keys of the other view are skipped as above.
    Skipped entries are listed in the report (`skipped_other_arch`).
    """
    def __init__(self, arch='x86_64'):
        self.arch = arch
        self.skipped = []   # entries that belong to the other architecture's view
        self.fns = {}       # key -> dict
        self.modules = defaultdict(list)
        self.private = set()   # structs whose fields keep their visibility (type invariants)
        self.inside = defaultdict(list)   # trait/impl path -> text inserted before its closing brace

    def lookup(self, key, used):
        """exact entry merged with every glob entry (keys containing '*') that matches"""
        import fnmatch
        hits = []
        if key in self.fns:
            hits.append(key)
        for pat in self.fns:
            if '*' in pat and fnmatch.fnmatchcase(key, pat):
                hits.append(pat)
        if not hits:
            return None
        merged = {'ret': None, 'attrs': [], 'spec': [], 'loops': {}, 'hints': []}
        for h in hits:
            used.add(h)
            e = self.fns[h]
            merged['ret'] = merged['ret'] or e['ret']
            merged['attrs'] += e['attrs']
            merged['spec'] += e['spec']
            merged['loops'].update(e['loops'])
            merged['hints'] += e['hints']
        return merged

    def other_view(self, key):
        """the key lies in the module of a source file that ARCH_FILES excludes from this view"""
        for fname, modpath in FILES:
            if ARCH_FILES.get(fname, self.arch) != self.arch:
                p = '::'.join(modpath)
                if key == p or key.startswith(p + '::'):
                    return True
        return False

    def view_lines(self, path):
        """pre-pass: the overlay text as seen by the current view. Entries (an `@@` header and the lines up to the next header)
        of the other view are left out - by `@arch` or by their key's module -, `@arch` lines are removed, and a header
        with several keys becomes one entry per key."""
        blocks = [[None, []]]    # [header, body lines]; the first block is the text before the first header
        for line in open(path).read().split('\n'):
            if line.startswith('@@ '):
                blocks.append([line, []])
            else:
                blocks[-1][1].append(line)
        out = list(blocks[0][1])
        for header, body in blocks[1:]:
            kind, _, rest = header[3:].partition(' ')
            if kind == 'inside':
                for line in body:
                    if re.search(r'\bspec fn \w+\(\s*\)', line):
                        # Verus 0.2026.09.13 conflates zero-argument static trait spec fns across impls (unsound): refuse them
                        # (checked for the entries of both views)
                        raise ExtractError('overlay %s: zero-argument static trait spec fn is not allowed: %s' % (path, line.strip()))
            archs = [a for line in body if line.startswith('@arch ') for a in line[6:].split()]
            for a in archs:
                if a not in set(ARCH_FILES.values()):
                    raise ExtractError('overlay %s: unknown architecture in `@arch %s` (%s)' % (path, a, header))
            body = [line for line in body if not line.startswith('@arch ')]
            keys = rest.split() if kind in ('fn', 'module', 'inside') else [rest]
            for key in keys:
                if (archs and self.arch not in archs) or (kind in ('fn', 'module', 'inside') and self.other_view(key)):
                    self.skipped.append('%s %s' % (kind, key))
                    continue
                out.append('@@ %s %s' % (kind, key))
                out += body
        return out

    def load(self, path):
        cur = None
        sect = None
        for raw in self.view_lines(path):
            line = raw.rstrip('\n')
            if line.startswith('@@ fn '):
                key = line[6:].strip()
                cur = self.fns.setdefault(key, {'ret': None, 'attrs': [], 'spec': [], 'loops': {}, 'hints': [], 'src': path})
                sect = None
            elif line.startswith('@@ inside '):
                key = line[10:].strip()
                cur = None
                sect = self.inside[key]
            elif line.startswith('@@ private '):
                self.private.add(line[11:].strip())
                cur = None
                sect = None
            elif line.startswith('@@ module '):
                key = line[10:].strip()
                cur = None
                sect = self.modules[key]
            elif line.startswith('@ret ') and cur is not None:
                cur['ret'] = line[5:].strip()
            elif line.startswith('@attr ') and cur is not None:
                cur['attrs'].append(line[6:].strip())
            elif line.startswith('@spec') and cur is not None:
                sect = cur['spec']
            elif line.startswith('@loop ') and cur is not None:
                parts = line.split()
                lp = {'iter': None, 'text': []}
                if len(parts) >= 4 and parts[2] == 'iter':
                    lp['iter'] = parts[3]
                cur['loops'][int(parts[1])] = lp
                sect = lp['text']
            elif line.startswith('@hint ') and cur is not None:
                h = {'where': line[6:].strip(), 'text': []}
                cur['hints'].append(h)
                sect = h['text']
            elif line.startswith('# ') or line == '#':
                continue
            else:
                if sect is not None:
                    sect.append(line)
        return self


def fn_key(modpath, it):
    p = it.path()
    return '::'.join(modpath + [p]) if modpath else p


def splice(fname, modpath, src, overlay, used, lost, opts=None, shapes=None):
    opts = opts or {}
    drop, drop_contract, base_kinds = opts.get('drop', set()), opts.get('drop_contract', set()), opts.get('loop_kinds', None)
    noiso = opts.get('no_isolation', set())
    shapes = shapes if shapes is not None else {'uncontracted': [], 'loop_kinds': {}}
    items = rsx.parse_items(src)
    ed = Edits(src)
    for it in rsx.walk(items):
        if it.kind in ('trait', 'impl') and it.body_open is not None:
            k2 = fn_key(modpath, it)
            if k2 in overlay.inside and ('inside', k2) not in used:
                used.add(('inside', k2))
                ed.add(it.end - 1, it.end - 1, '\n    // @inside ' + k2 + '\n' + '\n'.join(overlay.inside[k2]) + '\n', 'OV')
        if it.kind != 'fn':
            continue
        key = fn_key(modpath, it)
        ov = overlay.lookup(key, used)
        if key in drop_contract or (key in drop and ov is None):
            # the contract text itself no longer fits this function (e.g. renamed parameters), or a function without a contract
            # does not compile in the extracted crate: no contract, body not verified; ./check treats every caller of it as undecided
            if it.body_open is not None:
                ed.add(it.header_start, it.header_start, '#[verifier::external_body]\n    ', 'OV')
                ed.add(it.body_open, it.end, '{ unimplemented!() }', 'OV')
            lost.append((key, 'contract does not compile against the edited function'))
            continue
        if ov is None:
            head = src[it.header_start:it.body_open] if it.body_open is not None else ''
            if it.body_open is not None and not re.search(r'\b(spec|proof|axiom)\s+fn\b', head) and 'external_body' not in src[max(0, it.header_start - 120):it.header_start]:
                shapes['uncontracted'].append(key)
            continue
        tag = ' // @contract ' + key
        if key in noiso and it.loops and not any('loop_isolation' in a for a in ov['attrs']):
            # second attempt of ./check for a function whose proof failed: its loops also see what is known before them (facts
            # about locals the invariants do not mention, e.g. a hoisted sub-expression). Same obligations, another proof context.
            ed.add(it.header_start, it.header_start, '#[verifier::loop_isolation(false)]\n    ', 'OV')
        for a in ov['attrs']:
            ed.add(it.header_start, it.header_start, a + '\n    ', 'OV')
        if ov['ret']:
            if it.ret_arrow is None:
                lost.append((key, 'ret: function returns ()'))
            else:
                # -> T   ==>  -> (name: T)
                end = it.where_pos if it.where_pos is not None else it.sig_end
                ty_start = it.ret_arrow + 2
                ty = src[ty_start:end]
                ed.add(ty_start, end, ' (' + ov['ret'] + ': ' + ty.strip() + ')' + (' ' if ty.endswith(' ') else '\n    '), 'OV')
        # R23: a function carrying `#[target_feature(enable = "F")]` is the code compiled for F. Read off that attribute, not
        # written by hand: (a) `requires cpu_has_F()` is added to the function's contract - calling it is executing F code;
        # (b) at the end of its body each `&mut` slice/array parameter is labelled `ran_as(Isa::F, p@)` (prelude.rs), the one
        # source of ISA provenance facts. Changing or removing the attribute changes both.
        tf_req, tf_label = [], []
        tfm = None
        for tfm in re.finditer(r'#\[target_feature\(enable = "([\w.,]+)"\)\]', src[max(0, it.start - 160):it.header_start]):
            pass
        if tfm is not None and not re.search(r'[;}]', src[max(0, it.start - 160):it.header_start][tfm.end():]):
            for feat in tfm.group(1).split(','):
                if feat not in TARGET_FEATURES:
                    lost.append((key, 'R23: target feature %r has no model (known: %s)' % (feat, ' '.join(sorted(TARGET_FEATURES)))))
                    continue
                tf_req.append('crate::vprelude::cpu_has_%s()' % feat)
                if it.body_open is not None and it.ret_arrow is None:
                    for pm in re.finditer(r'\b(\w+): &mut \[', src[it.header_start:it.body_open]):
                        tf_label.append('crate::vprelude::label_entry_point(crate::vprelude::Isa::%s, %s@);' % (TARGET_FEATURES[feat], pm.group(1)))
        if ov['spec'] or tf_req:
            text = '\n'.join(l for l in ov['spec'] if l.strip())
            if tf_req:
                r23 = ', '.join(tf_req) + ', /* R23 */ '
                if re.search(r'\brequires\b', text):
                    text = re.sub(r'\brequires\b', 'requires ' + r23, text, count=1)
                else:
                    text = '        requires ' + r23 + '\n' + text
            ed.add(it.sig_end, it.sig_end, '\n' + text + tag + '\n    ', 'OV')
        pend = []
        n_lost0 = len(lost)
        if tf_label:
            pend.append((it.end - 1, it.end - 1, '\n        proof { /* R23 */ ' + ' '.join(tf_label) + ' }\n    ', 'OV'))
        if ov['loops']:
            kinds = [L.kind for L in it.loops]
            shapes['loop_kinds'][key] = kinds
            if base_kinds is not None and key in base_kinds and base_kinds[key] != kinds:
                lost.append((key, 'loop structure changed (%s -> %s): the loop invariants were written for another shape' % (' '.join(base_kinds[key]), ' '.join(kinds))))
        if key in drop:
            lost.append((key, 'the edited body (or the proof annotations spliced into it) does not get through the front end'))
            if it.body_open is not None:
                ed.add(it.body_open, it.end, '{ unimplemented!() }', 'OV')      # external_body bodies are still compiled by rustc
        for k, lp in ov['loops'].items():
            if k < 1 or k > len(it.loops):
                lost.append((key, 'loop %d (function has %d loops)' % (k, len(it.loops))))
                continue
            L = it.loops[k - 1]
            text = '\n'.join(l for l in lp['text'] if l.strip())
            pend.append((L.head_end, L.head_end, '\n' + text + ' // @loop %d of %s\n' % (k, key), 'OV'))
            if lp['iter'] and L.kind == 'for':
                m = re.match(r'for\s+(.+?)\s+in\s+', src[L.kw_pos:L.head_end], flags=re.S)
                if m and not re.match(r'\w+\s*:', src[L.kw_pos + m.end():L.head_end]):
                    p = L.kw_pos + m.end()
                    pend.append((p, p, lp['iter'] + ': ', 'OV'))
        for h in ov['hints']:
            w = h['where']
            text = '\n'.join(h['text'])
            pos = None
            if it.body_open is None:
                lost.append((key, 'hint on bodyless fn')); continue
            if w == 'start':
                pos = it.body_open + 1
            elif w == 'end':
                pos = it.end - 1
            else:
                m = re.match(r'(before|after) "(.*)"(?: #(\d+))?$', w)
                ml = re.match(r'loop (\d+) (start|end|after)$', w)
                if m:
                    needle, nth = m.group(2), int(m.group(3) or 1)
                    body = src[it.body_open:it.end]
                    idx = -1
                    for _ in range(nth):
                        idx = body.find(needle, idx + 1)
                        if idx < 0:
                            break
                    if idx < 0:
                        lost.append((key, 'hint anchor %r' % needle)); continue
                    p = it.body_open + idx
                    if m.group(1) == 'before':
                        # start of the line containing the anchor
                        pos = src.rfind('\n', 0, p) + 1
                    else:
                        pos = src.find('\n', p + len(needle)) + 1
                elif ml:
                    k = int(ml.group(1))
                    if k < 1 or k > len(it.loops):
                        lost.append((key, 'hint loop %d' % k)); continue
                    L = it.loops[k - 1]
                    pos = {'start': L.head_end + 1, 'end': L.body_end, 'after': L.body_end + 1}[ml.group(2)]
                else:
                    lost.append((key, 'bad hint position %r' % w)); continue
            pend.append((pos, pos, '\n' + text + '\n', 'OV'))
        if len(lost) > n_lost0:
            # an anchor of this function's proof is gone (the function was edited): keep its contract, leave the body
            # unverified, and let ./check report the properties that depend on it as undecided (exit 2)
            if not any('external_body' in a for a in ov['attrs']):
                ed.add(it.header_start, it.header_start, '#[verifier::external_body]\n    ', 'OV')
        else:
            for e in pend:
                ed.add(*e)
    return ed.apply()


# ----------------------------------------------------------------------------

def baseline_path(contracts, arch):
    """the committed shapes (loop kinds, uncontracted functions) of one view: `baseline_shapes.json` is the x86_64 view's file
    (its historical name), every other view has `baseline_shapes_<arch>.json`"""
    return os.path.join(contracts, 'baseline_shapes.json' if arch == 'x86_64' else 'baseline_shapes_%s.json' % arch)


def prelude_view(text, arch):
    """The prelude as seen by one view: a top-level module of prelude.rs whose header line is preceded by the line
    `// @arch <arch>...` (the intrinsic models: `simd` is the x86_64 view's, `neon` the aarch64 view's) is left out of the other
    views, as the overlay entries of the other view's engines are. Each view's trusted base then holds the model of the
    intrinsics its own engines use and nothing else. Returns the text and the names of the modules left out."""
    skipped = []
    while True:
        hit = None
        for m in re.finditer(r'(?m)^// @arch ([\w ]+)\n(?:pub )?mod (\w+) \{', text):
            archs = m.group(1).split()
            for a in archs:
                if a not in set(ARCH_FILES.values()):
                    raise ExtractError('prelude.rs: unknown architecture in `@arch %s` (mod %s)' % (a, m.group(2)))
            if arch not in archs:
                hit = m
                break
        if hit is None:
            return text, skipped
        k = hit.end() - 1
        depth = 0
        while True:
            if k >= len(text):
                raise ExtractError('prelude.rs: unbalanced braces in mod %s' % hit.group(2))
            depth += text[k] == '{'; depth -= text[k] == '}'
            k += 1
            if depth == 0:
                break
        skipped.append(hit.group(2))
        text = text[:hit.start()] + '// mod %s: model of the %s view, left out of this view\n' % (hit.group(2), hit.group(1).strip()) + text[k:].lstrip('\n')


def build(repo, contracts, arch, report, opts=None):
    if arch not in set(ARCH_FILES.values()):
        raise ExtractError('unknown --arch %s' % arch)
    overlay = Overlay(arch)
    ovdir = os.path.join(contracts, 'overlay')
    if os.path.isdir(ovdir):
        for f in sorted(os.listdir(ovdir)):
            if f.endswith('.vspec'):
                overlay.load(os.path.join(ovdir, f))
    rules = Rules(arch, report['rules'], overlay.private)
    used, lost = set(), []
    shapes = {'uncontracted': [], 'loop_kinds': {}}
    opts = dict(opts or {})
    bpath = baseline_path(contracts, arch)
    if os.path.exists(bpath):
        base = json.load(open(bpath))
        # a file written before the views were separated has no `arch` entry: it is the x86_64 view's
        if base.get('arch', 'x86_64') != arch:
            raise ExtractError('%s was generated from the %s view, not from %s' % (bpath, base.get('arch', 'x86_64'), arch))
        opts['loop_kinds'] = base.get('loop_kinds', {})
    tree = {'': {'text': '', 'subs': {}}}
    mods = {}   # tuple(modpath) -> text
    for fname, modpath in FILES:
        if fname in ARCH_FILES and ARCH_FILES[fname] != arch:
            continue
        path = os.path.join(repo, 'src', fname)
        if not os.path.exists(path):
            raise ExtractError('missing source file ' + fname)
        src = open(path).read()
        rules.modpath = list(modpath)
        out = rules.apply_all(fname, src)
        out = splice(fname, modpath, out, overlay, used, lost, opts, shapes)
        extra = overlay.modules.get('::'.join(modpath) if modpath else 'crate', [])
        if extra:
            out += '\n// @module-extra\n' + '\n'.join(extra) + '\n'
        mods[tuple(modpath)] = out
    for key in overlay.fns:
        if key not in used:
            lost.append((key, 'function not found'))
    for key in overlay.inside:
        if ('inside', key) not in used:
            lost.append((key, 'trait/impl not found'))
    report['lost_anchors'] = [{'key': k, 'what': w} for k, w in lost]
    report['contracts_spliced'] = sorted(k for k in used if isinstance(k, str))
    report['shapes'] = shapes
    report['arch'] = arch
    report['skipped_other_arch'] = sorted(overlay.skipped)

    def emit(path):
        text = mods.get(tuple(path), '')
        subs = sorted({m[len(path)] for m in mods if len(m) > len(path) and list(m[:len(path)]) == list(path)})
        for s in subs:
            text += '\npub mod %s {\nuse vstd::prelude::*;\n%s\n}\n' % (s, emit(list(path) + [s]))
        return text

    body = emit([])
    prelude = open(os.path.join(contracts, 'prelude.rs')).read() if os.path.exists(os.path.join(contracts, 'prelude.rs')) else ''
    prelude, report['prelude_skipped_other_arch'] = prelude_view(prelude, arch)
    spec = ''
    sdir = os.path.join(contracts, 'spec')
    if os.path.isdir(sdir):
        for f in sorted(os.listdir(sdir)):
            if f.endswith('.rs'):
                spec += '\npub mod %s {\n%s\n}\n' % (f[:-3], open(os.path.join(sdir, f)).read())
    hdr = ('#![feature(allocator_api)]\n#![allow(unused_imports, dead_code, unused_variables, unused_mut, mismatched_lifetime_syntaxes)]\n'
           'use vstd::prelude::*;\nverus! {\nglobal size_of usize == 8;\n')
    return hdr + '\npub mod vprelude {\n' + prelude + '\n}\npub mod vspec {\n' + spec + '\n}\n' + body + '\n} // verus!\nfn main() {}\n'


def main():
    ap = argparse.ArgumentParser()
    ap.add_argument('--repo', default='/repo')
    ap.add_argument('--contracts', required=True)
    ap.add_argument('--out', required=True)
    ap.add_argument('--arch', default='x86_64')
    ap.add_argument('--report')
    ap.add_argument('--no-isolation', default='', help='comma list of function keys that get #[verifier::loop_isolation(false)]')
    ap.add_argument('--drop', default='', help='comma list of function keys whose proof annotations are left out (body unverified, contract kept)')
    ap.add_argument('--drop-contract', default='', help='comma list of function keys whose whole overlay entry is left out')
    ap.add_argument('--write-baseline', nargs='?', const='', metavar='FILE',
                    help='write loop kinds / uncontracted functions of this tree (of the --arch view) to FILE; '
                         'without FILE: to the file of that view, contracts/baseline_shapes[_<arch>].json')
    a = ap.parse_args()
    report = {'rules': defaultdict(list)}
    try:
        text = build(a.repo, a.contracts, a.arch, report, {'drop': set(filter(None, a.drop.split(','))), 'drop_contract': set(filter(None, a.drop_contract.split(','))), 'no_isolation': set(filter(None, a.no_isolation.split(',')))})
    except (ExtractError, rsx.ScanError) as e:
        print('EXTRACT-ERROR: %s' % e, file=sys.stderr)
        sys.exit(2)
    open(a.out, 'w').write(text)
    if a.write_baseline is not None:
        # one baseline file per view; writing a view's shapes over another view's committed file is refused
        target = a.write_baseline or baseline_path(a.contracts, a.arch)
        for other in set(ARCH_FILES.values()) - {a.arch}:
            if os.path.abspath(target) == os.path.abspath(baseline_path(a.contracts, other)):
                print('EXTRACT-ERROR: %s is the baseline of the %s view (this is --arch %s)' % (target, other, a.arch), file=sys.stderr)
                sys.exit(2)
        json.dump(dict(report['shapes'], arch=a.arch), open(target, 'w'), indent=1, sort_keys=True)
    if a.report:
        report['rules'] = {k: v for k, v in report['rules'].items()}
        json.dump(report, open(a.report, 'w'), indent=1)
    n = sum(len(v) for v in report['rules'].values())
    print('extracted %d lines, %d rule applications, %d contracts, %d lost anchors' % (text.count('\n'), n, len(report['contracts_spliced']), len(report['lost_anchors'])))
    if a.arch != 'x86_64':
        print('view %s: %d overlay entries of the other view skipped' % (a.arch, len(report['skipped_other_arch'])))


if __name__ == '__main__':
    main()
