#!/bin/bash
# usage: seed_matrix.sh <dir-with-mutants: <name>/patch.diff> [names...]  -> work/seed_matrix.txt (one line per mutant)
ROOT=$1; shift
cd /verif
for n in "$@"; do
  r=$(tools/seed_detect.sh $ROOT/$n/patch.diff 2>&1 | grep -v WARNING | tail -1)
  echo "$n $r" | tee -a work/seed_matrix.txt
  mkdir -p work/seedlogs_all/$(echo $n | tr / _); cp work/seedlogs/*.log work/seedlogs_all/$(echo $n | tr / _)/
done
