#!/usr/bin/env python3
"""writes MANIFEST.json next to ./check from contracts/properties.json (one source of truth for levels and trusted bases)"""
import json, os
HERE = os.path.dirname(os.path.dirname(os.path.abspath(__file__)))
P = {k: v for k, v in json.load(open(os.path.join(HERE, 'contracts', 'properties.json'))).items() if not k.startswith('_')}
TEXT = {
 'C01': 'Verus proves, for every configuration, size, engine and history, that decode returns exactly the reference erasure decoding dec_*_ref of what was given and encode the reference encoding enc_*_ref (R-layer), and that the reference decoder applied to any original_count-or-more received shards of a reference codeword returns every missing original, for both rates and the rule-selected default (M3: LCH basis as polynomials, derivative lemma, locator, degree count). The native all-subsets round trips remain as an independent cross-check.',
 'C02': 'Verus proves encode == enc_high_ref / enc_low_ref / rule-selected (FFT/IFFT formula over GF(2^16) from first principles) for all inputs and histories, and that these reference encoders equal the closed-form scaled Cauchy matrix of the property statement slot by slot (M2: LCH basis = polynomials, interpolation uniqueness, Lagrange form on aligned cosets). The native closed-form oracle remains as an independent cross-check.',
 'C03': 'One Engine trait contract against one reference spec; every engine implementation (Naive, NoSimd, Ssse3, Avx2, DefaultEngine - schedules and leaf kernels) is verified against it, so they agree wherever the contract defines the output. The x86 intrinsics are an assumed byte-wise model, cross-checked natively on all (symbol, log_m) pairs; Neon (aarch64 view) is verified likewise over an assumed byte-wise model of its seven intrinsics, which cannot be cross-checked on this host.',
 'C04': 'Byte placement (insert / undo / accessors, short final block included) and slot independence are proved for all sizes: per single slot for the encoders (closed-form matrix over slot k only), as commutation with truncation to a prefix of slots for every transform, both encoders and the decoder core. A bounded native stand-in compares any-size coding on every engine with slot-by-slot 2-byte coding.',
 'C05': 'Every result is proved equal to a function of the configuration and the shards added this round (orig_sv / received positions only); stale work memory is universally quantified in the proof.',
 'C06': 'Exact error values, Ok on valid use and absence of panics (overflow, index, assert!, unreachable!) are proof obligations of every public function.',
 'C07': 'Err ==> *final(self) == *old(self) is a postcondition of every fallible method, for all inputs.',
 'C08': 'supports == README envelope formula as a spec function, proved for all usize pairs; new / reset / validate proved to succeed exactly there (and to leave a work space of exactly the needed size and invariant); Kani cross-checks the arithmetic loop-free; a bounded native stand-in really encodes and decodes on the edge of the envelope.',
 'C09': 'DefaultRate* invariants carry the tag fixed by rule_high; its enc_spec / dec_spec are the dedicated codecs\' specs under that rule; wrappers and one-shot functions proved equal to the default-rate codec. Bounded native stand-ins run ReedSolomon* against DefaultRate* call by call and against a fresh dedicated codec chosen by the rule as the property states it.',
 'C10': 'lib::encode / lib::decode proved equal to the fold of the streaming contracts in call order (errors exact). The collection tails are verified too: the HashMap fill of decode as the unfolded for-loop over the verified RestoredOriginal::next, map(to_vec).collect() of encode as written, over a checked prophetic model of Recovery and the vstd specs of map / collect.',
 'C11': 'Decoder bookkeeping is over sets of indexes; dec_spec reads received positions only (lemma), hence order-free; the decoding theorems hold for every sufficient received set, so surplus shards cannot change the result; given originals are never exposed (accessor contracts).',
 'C12': 'Accessors, iterators and Drop against the work-space view, for all indexes.',
 'C13': 'Additivity, zero and scalar multiples (homogeneity: right-multiplications of the shift-xor field commute) of enc_high_ref / enc_low_ref proved by induction over layers and chunks, on top of the proved encode == enc_*_ref; every engine kernel is proved to be xor / multiplication by a data-independent constant.',
 'C14': 'Every function compiled with #[target_feature(enable = F)] gets requires cpu_has_F() mechanically from that attribute, and every SIMD intrinsic of the model requires its instruction set; DefaultEngine::new / eval_poly proved to reach them only under the detection result and to pick the best reported ISA, in both platform views (x86_64: AVX2 > SSSE3 > NoSimd; aarch64: Neon > NoSimd). Which compiled variant produced the erasure locator is tracked by a ghost provenance tag (ran_as), so a decoder that bypasses the engine dispatch fails an obligation although its results are identical.',
 'C15': 'Primitives proved equal to their reference networks over a field defined from 0x1002D and the Cantor basis (field laws, primitivity of x mechanised); fft_ref proved to evaluate the LCH-basis polynomial at skew_delta + i and ifft_ref to be its exact inverse (M1); eval_poly_ref proved to be the sum of logs of (x xor j) over marked j != x modulo 65535 (XOR-convolution theorem, M4); all five tables proved equal to their definitions, skew = log of the normalised subspace polynomials; AVX2/SSSE3 kernels proved over a byte-wise model of the intrinsics, Neon schedules and kernels likewise in the aarch64 view.',
 'C17': 'Allocation is not observable by the verifiers. Proved: the work space a reset asks for is exactly positions x ceil(shard_bytes / 64) blocks and results borrow the work buffer (identity). Decided by a bounded native stand-in: counting allocator over rounds and non-growing resets on every engine, four configurations (long shards, low rate, many positions, tight shard-size transition), threshold one 64-byte block.',
}
def technique(pid, v):
    kani = sorted(set(v.get('kani_quick') or []) | set(v.get('kani_thorough') or []))
    nat = v.get('native') or []
    if v.get('level', 'proof') == 'proof':
        t = 'DECIDED BY contract-based deductive verification (Verus 0.2026.09.13 / Z3) of the real code, extracted mechanically on every run (tools/extract.py, rules R0-R23) with the contracts of contracts/overlay spliced in: every obligation of the functions this property depends on must be discharged'
    else:
        t = 'DECIDED BY a bounded native stand-in on the real crate (labelled bounded, not a proof); Verus contracts on the same functions are supporting obligations'
    if kani:
        t += '; second back end: Kani 0.68 / CBMC harnesses (' + ', '.join(kani) + ') - loop-free ones are complete, the others bounded and labelled so'
    if nat:
        t += '; bounded native stand-ins on the real crate (failing inputs for the replay file, cross-checks of the assumed models): ' + ', '.join(nat)
    return t


checks = []
for pid, v in sorted(P.items()):
    checks.append({
        'property_id': pid,
        'quick_cmd': './check %s --tier quick' % pid,
        'thorough_cmd': './check %s --tier thorough' % pid,
        'evidence_file': 'evidence/%s.json' % pid,
        'replay_cmd_template': './check %s --replay {path}' % pid,
        'engine': 'verus+kani+native',
        'level_claimed': {'category': v.get('level', 'proof'), 'text': TEXT[pid], 'design_ref': 'DESIGN.md section 6 (%s)' % pid},
        'level_note': 'trusted: ' + '; '.join(v.get('trusted_base', [])) + ('. NOT PROVED: ' + ' | '.join(v['not_proved']) if v.get('not_proved') else ''),
        'technique': technique(pid, v),
    })
m = {
 'version': 1,
 'setup_cmd': 'true',
 'hooks': {'guard': 'none', 'enable': 'no hooks: contracts live in /verif/contracts and are spliced into a mechanically extracted copy of /repo/src on every run',
           'baseline_off_cmd': 'cd /repo && cargo test --workspace --no-fail-fast --offline', 'source_commits': [], 'add_only': True},
 'engines': [{'name': 'verus+kani+native', 'path': 'check', 'serves_properties': sorted(P), 'kind_free_text': 'extract.py -> Verus 0.2026.09.13 (Z3); Kani 0.68 harnesses on a scratch copy; native runner for replay and bounded stand-ins'}],
 'checks': checks,
 'not_applicable': [{'property_id': 'C16', 'reason': 'concurrency (racing LazyLock initialisation, moves across threads) is outside function contracts: Kani has no threads, Verus would need its own permission types for std LazyLock; see DESIGN.md section 6 (C16)'}],
 'notes': 'every check rebuilds from /repo\'s working tree; one Verus run per tree digest is shared by all properties (work/ cache); scratch copies go to mkdtemp and are removed',
}
json.dump(m, open(os.path.join(HERE, 'MANIFEST.json'), 'w'), indent=1)
print('wrote MANIFEST.json with %d checks' % len(checks))
