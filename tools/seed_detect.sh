#!/bin/bash
# usage: seed_detect.sh <patch.diff> [props...]   applies a seeded change to /repo, runs the quick checks, undoes it
# prints which properties raise VIOLATION (id), which are undecided (id?)
PATCH=$(readlink -f $1); shift
PROPS=${@:-C01 C02 C03 C04 C05 C06 C07 C08 C09 C10 C11 C12 C13 C14 C15 C17}
cd /verif
[ -n "$(git -C /repo status --porcelain -- src)" ] && { echo "/repo not clean"; exit 3; }
git -C /repo apply $PATCH || exit 3
mkdir -p work/seedlogs
out=""
for p in $PROPS; do
  ./check $p --tier quick $CHECK_ARGS > work/seedlogs/$p.log 2>&1; rc=$?
  [ $rc -eq 1 ] && out="$out $p"
  [ $rc -eq 2 ] && out="$out $p?"
done
git -C /repo checkout -- .
echo "detected:$out"
